#!/bin/bash
# cross_matrix.sh [ids...]: every seeded change against ALL six checks (to see which checks alarm on changes
# that were written against another property; each such alarm must be a genuine violation of that property too).
cd "$(dirname "$0")"
ids="$@"; [ -z "$ids" ] && ids=$(ls seeded)
for id in $ids; do
  for p in C05 C07 C10 C14 C15 C16; do
    echo "$id $(./mutrun.sh seeded/$id/patch.diff $p 2>&1 | tail -1 | cut -c1-200)"
  done
done
