#!/bin/bash
# mkoverlay.sh: generate the build overlay of the simulation worker into
# /verif/bin (atomic: concurrent checks may run this at the same time) and
# print the path of the overlay JSON. Exit 2 if the toolchain's sources do not
# have the expected shape. Nothing in GOROOT is edited.
#
# Two seams of the worker that live in the standard library:
#
# 1. sync.Pool: under the race detector Pool.Put drops objects at random
#    (runtime_randn) and the garbage collector empties pools at times that
#    depend on wall-clock pacing; both would make behaviour that depends on
#    pooled objects vary between executions of one seed. In the worker build
#    Put never drops, the worker empties all pools before every run
#    (sync.VerifFlushPools) and collects garbage only between runs. With
#    GOMAXPROCS=1 a pool is then a deterministic LIFO.
#
# 2. map iteration order: the runtime randomises the hash function key per
#    process, the hash seed per map and the starting point per iteration. A
#    library whose behaviour depends on the order in which it ranges over a
#    map would then differ between two executions of one seed. In the worker
#    build these three draws come from one generator that starts from a fixed
#    value at process start and is re-seeded from the run's seed before every
#    run (runtime.verifSetMapSeed, reached through go:linkname from
#    cmd/simworld): orders still vary from seed to seed, but one seed is one
#    order. The same generator decides which of several ready cases a select
#    statement takes.
set -u
VERIF="$(cd "$(dirname "$0")" && pwd)"
fail2() { echo "mkoverlay.sh: $*" >&2; exit 2; }
GOROOT_DIR="$(go env GOROOT)"
RT="$GOROOT_DIR/src/runtime"
POOL="$GOROOT_DIR/src/sync/pool.go"
OUT="$VERIF/bin/ovl"
TMP="$VERIF/bin/ovl.$$"
rm -rf "$TMP"; mkdir -p "$TMP" || fail2 "cannot create $TMP"
trap 'rm -rf "$TMP"' EXIT

# --- 1. sync.Pool
grep -q 'if runtime_randn(4) == 0 {' "$POOL" && grep -q '^func poolCleanup() {' "$POOL" && grep -q 'allPoolsMu Mutex' "$POOL" || fail2 "sync/pool.go of this toolchain has an unexpected shape"
sed 's/if runtime_randn(4) == 0 {/if false \&\& runtime_randn(4) == 0 {/' "$POOL" > "$TMP/pool.go"
cat >> "$TMP/pool.go" <<'EOP'

// VerifFlushPools empties every pool. Added by /verif's build overlay for the
// simulation worker, which calls it between runs while no task is running.
func VerifFlushPools() {
	allPoolsMu.Lock()
	poolCleanup()
	poolCleanup()
	allPoolsMu.Unlock()
}
EOP

# --- 2. maps
[ "$(grep -c 'rand()' "$RT/map.go")" = "9" ] && [ "$(grep -c 'uint32(rand())' "$RT/map.go")" = "5" ] \
  && grep -q 'r := uintptr(rand())' "$RT/map.go" && [ "$(grep -c 'r := int(rand())' "$RT/map.go")" = "2" ] \
  || fail2 "runtime/map.go of this toolchain has an unexpected shape"
sed 's/h\.hash0 = uint32(rand())/h.hash0 = verifHash0()/; s/uint32(rand())/uint32(verifMapRand())/; s/r := uintptr(rand())/r := uintptr(verifIterStart(h))/; s/r := int(rand())/r := int(verifIterStart(h) >> 1)/' "$RT/map.go" > "$TMP/map.go"
cat >> "$TMP/map.go" <<'EOP'

// verif: every random draw of the map implementation (hash seed per map,
// starting point per iteration) comes from this generator. Added by /verif's
// build overlay for the simulation worker (GOMAXPROCS=1, one task at a time).
var verifMapState uint64 = 0x6c6f726177616e21

// verifRunSeed: the hash seed of every map and the starting point of every
// iteration are functions of this value and of the map itself (its seed, its
// size), NOT of how many maps the process has made so far: the standard
// library builds caches lazily (encoding/json, reflect, fmt), so the number of
// maps made before a given point differs between the first run of a process
// and a later one, and a position in one global sequence would differ with it.
var verifRunSeed uint64 = 0x6c6f726177616e21

// verifSetMapSeed re-seeds both (before every simulated run).
//
//go:linkname verifSetMapSeed
func verifSetMapSeed(s uint64) { verifMapState = s; verifRunSeed = s }

func verifMix(z uint64) uint64 {
	z += 0x9e3779b97f4a7c15
	z = (z ^ (z >> 30)) * 0xbf58476d1ce4e5b9
	z = (z ^ (z >> 27)) * 0x94d049bb133111eb
	return z ^ (z >> 31)
}

// verifHash0: one hash seed for all maps of a run.
func verifHash0() uint32 { return uint32(verifMix(verifRunSeed ^ 0x68617368)) }

// verifIterStart: where an iteration starts (bucket and offset) follows from
// the run and from the map's seed and size.
// The four spare bits of hmap.flags count the iterations of that map (mod 16),
// so that successive iterations over an unchanged map still start at
// different places - as they do in the real runtime - without any global
// sequence (one P, no preemption inside the runtime: the update is safe).
func verifIterStart(h *hmap) uint64 {
	k := h.flags >> 4
	h.flags = h.flags&0x0f | (k+1)<<4
	return verifMix(verifRunSeed ^ uint64(h.hash0)<<7 ^ uint64(h.count)*0x9e3779b97f4a7c15 ^ uint64(h.B)<<56 ^ uint64(k)<<40)
}

func verifMapRand() uint64 {
	verifMapState += 0x9e3779b97f4a7c15
	z := verifMapState
	z = (z ^ (z >> 30)) * 0xbf58476d1ce4e5b9
	z = (z ^ (z >> 27)) * 0x94d049bb133111eb
	return z ^ (z >> 31)
}

// verifMapShrink gives an EMPTY map the shape of a freshly made one (no
// bucket array, a new hash seed): the worker rewinds the package-level maps of
// the library between runs, and a map that grew in an earlier run of the
// process would otherwise keep its larger bucket array - and with it another
// iteration order for the same keys - in the next one.
//
//go:linkname verifMapShrink
func verifMapShrink(m unsafe.Pointer) {
	h := (*hmap)(m)
	if h == nil || h.count != 0 || h.flags&hashWriting != 0 {
		return
	}
	h.B = 0
	h.noverflow = 0
	h.buckets = nil
	h.oldbuckets = nil
	h.nevacuate = 0
	h.extra = nil
	h.flags = 0
	h.hash0 = verifHash0()
}
EOP
grep -q 'sameSizeGrow = 8' "$RT/map.go" && grep -q 'oldIterator' "$RT/map.go" && grep -q 'nevacuate  uintptr' "$RT/map.go" && grep -q 'extra \*mapextra' "$RT/map.go" || fail2 "runtime/map.go: hmap has an unexpected shape"
for f in map_fast32.go map_fast64.go map_faststr.go; do
  [ "$(grep -c 'rand()' "$RT/$f")" = "1" ] && grep -q 'h.hash0 = uint32(rand())' "$RT/$f" || fail2 "runtime/$f of this toolchain has an unexpected shape"
  sed 's/h\.hash0 = uint32(rand())/h.hash0 = verifHash0()/' "$RT/$f" > "$TMP/$f"
done
[ "$(grep -c 'bootstrapRand()' "$RT/alg.go")" = "2" ] || fail2 "runtime/alg.go of this toolchain has an unexpected shape"
sed 's/bootstrapRand()/verifMapRand()/' "$RT/alg.go" > "$TMP/alg.go"
# select: the order in which ready cases are polled
[ "$(grep -c 'cheaprandn(uint32(norder + 1))' "$RT/select.go")" = "1" ] || fail2 "runtime/select.go of this toolchain has an unexpected shape"
sed 's/cheaprandn(uint32(norder + 1))/uint32(verifMapRand() % uint64(norder+1))/' "$RT/select.go" > "$TMP/select.go"

{
  printf '{"Replace": {\n'
  printf ' "%s": "%s",\n' "$POOL" "$OUT/pool.go"
  for f in map.go map_fast32.go map_fast64.go map_faststr.go select.go; do printf ' "%s": "%s",\n' "$RT/$f" "$OUT/$f"; done
  printf ' "%s": "%s"\n}}\n' "$RT/alg.go" "$OUT/alg.go"
} > "$TMP/overlay.json"

# install: the content is a pure function of the toolchain, so concurrent
# writers produce identical files; each file is moved into place atomically
mkdir -p "$OUT"
for f in pool.go map.go map_fast32.go map_fast64.go map_faststr.go select.go alg.go overlay.json; do
  mv -f "$TMP/$f" "$OUT/$f" || fail2 "cannot install $f"
done
echo "$OUT/overlay.json"
