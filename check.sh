#!/bin/bash
# check.sh <property|selftest-*> <quick|thorough|replay|build> [replay-file]
#
# Copies /repo's CURRENT working tree to a scratch directory, instruments it
# (yield points + controllable locks), builds the simulation worker against
# it with the race detector, drives the property's world, writes
# /verif/evidence/<id>.json, cleans the scratch directory up again.
# Exit: 0 held / 1 VIOLATION / 2 machinery trouble (build, watchdog, ...).
set -u
VERIF="$(cd "$(dirname "$0")" && pwd)"
REPO="${VERIF_REPO:-/repo}"
export GOFLAGS=-mod=mod GOPROXY=off GOSUMDB=off GOTOOLCHAIN=local
export GOCACHE="${GOCACHE:-/root/.cache/go-build}"

ID="${1:-}"; MODE="${2:-quick}"; ARG="${3:-}"
SEED="${VERIF_SEED:-1}"
BUDGET="${VERIF_BUDGET_S:-900}"
WORKERS="${VERIF_WORKERS:-16}"

case "$ID" in
  C05) WORLD=radio; RUNS=20000 ;;
  C07) WORLD=reg;   RUNS=40000 ;;
  C10) WORLD=iso;   RUNS=8000 ;;
  C14) WORLD=adr;   RUNS=2000 ;;
  C15) WORLD=plan;  RUNS=8000 ;;
  C16) WORLD=join;  RUNS=10000 ;;
  smoke) WORLD=smoke; RUNS=300 ;;
  selftest-instrument|selftest-determinism) WORLD=none; RUNS=0 ;;
  *) echo "usage: check.sh <C05|C07|C10|C14|C15|C16|selftest-instrument|selftest-determinism> <quick|thorough|replay <file>>" >&2; exit 2 ;;
esac
[ -n "${VERIF_RUNS:-}" ] && RUNS="$VERIF_RUNS"

SCR="/tmp/verif-scratch-$ID-$MODE-$$"
cleanup() { rm -rf "$SCR"; }
trap cleanup EXIT
rm -rf "$SCR"; mkdir -p "$SCR" || exit 2

fail2() { echo "check.sh: $*" >&2; exit 2; }

# --- build the tools of the harness itself (no race detector needed) ---
mkdir -p "$VERIF/bin"
( cd "$VERIF" && go build -o bin/instrument ./cmd/instrument && go build -o bin/simdrive ./cmd/simdrive ) || fail2 "building harness tools failed"

# --- scratch copy of the current working tree, instrumented ---
rsync -a --exclude .git "$REPO"/ "$SCR/repo/" || fail2 "copying $REPO failed"
"$VERIF/bin/instrument" -root "$SCR/repo" -sites "$SCR/sites.json" >"$SCR/instrument.log" 2>&1 || { cat "$SCR/instrument.log" >&2; fail2 "instrumenting failed"; }

sed "s#=> /repo#=> $SCR/repo#" "$VERIF/go.mod" > "$SCR/go.mod"
cp "$VERIF/go.sum" "$SCR/go.sum"

if [ "$ID" = "selftest-instrument" ]; then
  # the rewritten tree must still pass the repository's own test suite under
  # -race (simulator inactive => every Yield is a no-op, locks are try-lock spins)
  mkdir -p "$SCR/stub/verif/simrt/pkgstate" "$SCR/stub/verif/simrt/simtime" "$SCR/stub/verif/stublog"
  cp "$VERIF/simrt/simtime/simtime.go" "$SCR/stub/verif/simrt/simtime/"
  cp "$VERIF/simrt/simrt.go" "$SCR/stub/verif/simrt/"; cp "$VERIF/stublog/stublog.go" "$SCR/stub/verif/stublog/"
  cp "$VERIF/simrt/pkgstate/pkgstate.go" "$SCR/stub/verif/simrt/pkgstate/"
  printf 'module verif\n\ngo 1.21\n' > "$SCR/stub/verif/go.mod"
  printf '\nrequire verif v0.0.0\n\nreplace verif => %s\n' "$SCR/stub/verif" >> "$SCR/repo/go.mod"
  ( cd "$SCR/repo" && go test -race -vet=off -count=1 ./... > "$SCR/test.log" 2>&1 )
  grep -E "^(ok|FAIL|---)" "$SCR/test.log" | grep -v "^ok" | head -20
  OTHER=$(grep "^--- FAIL" "$SCR/test.log" | grep -vc "TestAsyncClient")
  BUILDFAIL=$(grep -c "\[build failed\]\|cannot find\|undefined:" "$SCR/test.log")
  OKS=$(grep -c "^ok" "$SCR/test.log")
  echo "selftest-instrument: $OKS packages ok; failing tests other than TestAsyncClient (needs Redis; BASELINE always_fail): $OTHER; build failures: $BUILDFAIL"
  [ "$OTHER" = "0" ] && [ "$BUILDFAIL" = "0" ] && [ "$OKS" -ge 10 ] && exit 0
  tail -30 "$SCR/test.log"; exit 1
fi

# --- seams inside the standard library (sync.Pool, map iteration order): a
# build overlay, generated from the toolchain's own sources (see mkoverlay.sh)
OVERLAY="$("$VERIF/mkoverlay.sh")" || fail2 "generating the build overlay failed"

( cd "$VERIF" && go build -race -trimpath -overlay "$OVERLAY" -ldflags "-X verif/simrt/simtime.mode=virtual" -modfile="$SCR/go.mod" -o "$SCR/simworld" ./cmd/simworld ) >"$SCR/build.log" 2>&1 \
  || { cat "$SCR/build.log" >&2; fail2 "building the instrumented worker failed (does the tree compile?)"; }

[ "$MODE" = "build" ] && { echo "build ok"; exit 0; }

if [ "$ID" = "selftest-determinism" ]; then
  "$VERIF/selftest_determinism.sh" "$SCR/simworld" ; exit $?
fi

COMMON=( -worker "$SCR/simworld" -workers "$WORKERS" )
# C14 and C15 quantify over configurations, histories and inputs - not over
# schedules: their shared-band runs judge the answers of the band, not the
# race detector's reports (race freedom is C10's clause)
case "$ID" in C14|C15) COMMON+=( -races-not-judged ) ;; esac
if [ -f "$SCR/fresh_mode" ]; then
  echo "check.sh: the MAC registry has an unexpected shape: no reset hook, every seed runs in its own worker process"
  COMMON+=( -fresh )
  # a process per seed costs ~30 ms: fewer runs in the quick tier
  [ "$RUNS" -gt 3000 ] && RUNS=3000
fi
if [ "$MODE" = "replay" ]; then
  [ -f "$ARG" ] || fail2 "replay file '$ARG' not found"
  "$VERIF/bin/simdrive" "${COMMON[@]}" -replay "$ARG"
  exit $?
fi

. "$VERIF/props.sh"
"$VERIF/bin/simdrive" "${COMMON[@]}" -prop "$ID" -world "$WORLD" -tier "$MODE" -seed "$SEED" \
  -sites "$SCR/sites.json" -out "${VERIF_EVIDENCE_DIR:-$VERIF/evidence}/$ID.json" -known "$VERIF/known_findings.json" \
  -replays "${VERIF_REPLAY_DIR:-$VERIF/replays}" -runs "$RUNS" -budget "$BUDGET" \
  -rule "$(rule_$WORLD)" -assume "$(assume_$WORLD)" -real "$(real_$WORLD)" -stub "$(stub_$WORLD)"
exit $?
