#!/bin/bash
# mkworker.sh <dir>: build an instrumented worker of /repo's working tree into <dir> (for manual experiments; caller removes <dir>)
set -e
VERIF="$(cd "$(dirname "$0")" && pwd)"
export GOFLAGS=-mod=mod GOPROXY=off GOSUMDB=off GOTOOLCHAIN=local
SCR="$1"; rm -rf "$SCR"; mkdir -p "$SCR"
rsync -a --exclude .git "${VERIF_REPO:-/repo}"/ "$SCR/repo/"
( cd "$VERIF" && go build -o bin/instrument ./cmd/instrument && go build -o bin/simdrive ./cmd/simdrive )
"$VERIF/bin/instrument" -root "$SCR/repo" -sites "$SCR/sites.json" >/dev/null
sed "s#=> /repo#=> $SCR/repo#" "$VERIF/go.mod" > "$SCR/go.mod"; cp "$VERIF/go.sum" "$SCR/go.sum"
( cd "$VERIF" && go build -race -trimpath -overlay "$("$VERIF/mkoverlay.sh")" -ldflags "-X verif/simrt/simtime.mode=virtual" -modfile="$SCR/go.mod" -o "$SCR/simworld" ./cmd/simworld )
echo "$SCR/simworld"
