package spec

import (
	"fmt"

	"github.com/brocaar/lorawan"

	"verif/sim"
)

// Frame is the harness's own representation of a data frame (the "ground
// truth" that travels in the message envelope next to the bytes).
type Frame struct {
	MType    byte // 2 UnconfirmedDataUp, 3 UnconfirmedDataDown, 4 ConfirmedDataUp, 5 ConfirmedDataDown
	DevAddr  [4]byte
	ADR      bool
	ADRACK   bool
	ACK      bool
	Bit4     bool // FPending (down) / ClassB (up)
	FCnt     uint32
	FOpts    []Cmd
	HasPort  bool
	FPort    uint8
	FRMCmds  []Cmd  // FPort == 0
	AppBytes []byte // FPort > 0
	// EmptyElem: a sender may model "no application bytes" as one empty
	// DataPayload element instead of no element (same frame on the wire)
	EmptyElem bool
}

func (f Frame) Uplink() bool { return f.MType == 2 || f.MType == 4 }

// AllInSpec reports whether every standard command of the frame has all its
// fields inside the ranges an encoder must accept (false if the generator
// used a legacy value).
func (f Frame) AllInSpec() bool {
	for _, cs := range [][]Cmd{f.FOpts, f.FRMCmds} {
		for _, c := range cs {
			if c.CID >= 0x80 {
				continue
			}
			if d := Desc(c.Up, c.CID); d != nil && !d.InSpec(c) {
				return false
			}
		}
	}
	return true
}

func (f Frame) String() string {
	return fmt.Sprintf("mtype=%d addr=%x adr=%v adrack=%v ack=%v b4=%v fcnt=%d fopts=%v port=%v/%d frmcmds=%v app=%x",
		f.MType, f.DevAddr, f.ADR, f.ADRACK, f.ACK, f.Bit4, f.FCnt, f.FOpts, f.HasPort, f.FPort, f.FRMCmds, f.AppBytes)
}

// CmdGen draws spec-valid commands of one direction, including proprietary
// ones registered in the model registry (prop: cid -> size).
type CmdGen struct {
	Up   bool
	Prop map[byte]int // proprietary CIDs usable in this direction and their payload sizes
}

func (g CmdGen) Gen(r *sim.Rand, maxBytes int) (Cmd, bool) {
	ds := DescsDir(g.Up)
	for try := 0; try < 8; try++ {
		if len(g.Prop) > 0 && r.Intn(5) == 0 {
			// pick a proprietary cid deterministically (sorted order)
			cids := make([]int, 0, len(g.Prop))
			for c := range g.Prop {
				cids = append(cids, int(c))
			}
			sortInts(cids)
			cid := byte(cids[r.Intn(len(cids))])
			n := g.Prop[cid]
			if 1+n > maxBytes {
				continue
			}
			return Cmd{Up: g.Up, CID: cid, Raw: r.Bytes(n)}, true
		}
		d := ds[r.Intn(len(ds))]
		if 1+d.Size > maxBytes {
			continue
		}
		c := d.GenCmd(r)
		if d.CID == 0x0e && !d.Up && c.F[2] == 1 {
			// ForceRejoinReq RejoinType 1 is spec-valid but refused by the
			// library (recorded finding of C07, judged there): frames and
			// streams of the worlds avoid it
			c.F[2] = 0
		}
		return c, true
	}
	return Cmd{}, false
}

func sortInts(a []int) {
	for i := 1; i < len(a); i++ {
		for j := i; j > 0 && a[j-1] > a[j]; j-- {
			a[j-1], a[j] = a[j], a[j-1]
		}
	}
}

// GenCmds draws a command sequence of at most maxBytes wire bytes.
func (g CmdGen) GenCmds(r *sim.Rand, maxBytes, maxCmds int) []Cmd {
	var out []Cmd
	left := maxBytes
	for len(out) < maxCmds && left > 0 {
		c, ok := g.Gen(r, left)
		if !ok {
			break
		}
		out = append(out, c)
		left -= WireSize(c)
	}
	return out
}

// GenFrame draws a spec-valid data frame for the given direction.
// v11 matters only for what a sender may legally combine (FOpts together
// with port-0 commands is never allowed).
func GenFrame(r *sim.Rand, uplink bool, devAddr [4]byte, fcnt uint32, g CmdGen, maxPayload int) Frame {
	f := Frame{DevAddr: devAddr, FCnt: fcnt}
	confirmed := r.Intn(3) == 0
	switch {
	case uplink && !confirmed:
		f.MType = 2
	case !uplink && !confirmed:
		f.MType = 3
	case uplink && confirmed:
		f.MType = 4
	default:
		f.MType = 5
	}
	f.ADR = r.Intn(2) == 0
	f.ADRACK = uplink && r.Intn(4) == 0 // bit 6 of a downlink FCtrl is RFU
	f.ACK = r.Intn(3) == 0
	f.Bit4 = r.Intn(4) == 0
	shape := r.Intn(10)
	switch {
	case shape == 0:
		// bare frame: no FOpts, no port
	case shape == 1:
		// FOpts only
		f.FOpts = g.GenCmds(r, 1+r.Intn(15), 8)
	case shape == 2 || shape == 3:
		// MAC commands on port 0
		f.HasPort = true
		f.FPort = 0
		n := 1 + r.Intn(30)
		if r.Intn(6) == 0 {
			n = maxPayload
		}
		if n > maxPayload {
			n = maxPayload
		}
		f.FRMCmds = g.GenCmds(r, n, 64)
	case shape == 4:
		// port without payload (optionally with FOpts)
		f.HasPort = true
		f.FPort = uint8(1 + r.Intn(223))
		if r.Intn(2) == 0 {
			f.FOpts = g.GenCmds(r, 1+r.Intn(15), 8)
		}
		f.EmptyElem = r.Intn(2) == 0
	default:
		// application payload, optionally with FOpts (MACPayload stays <= maxPayload+8)
		f.HasPort = true
		f.FPort = uint8(1 + r.Intn(223))
		limit := maxPayload
		if r.Intn(2) == 0 {
			f.FOpts = g.GenCmds(r, 1+r.Intn(15), 8)
			for _, c := range f.FOpts {
				limit -= WireSize(c)
			}
		}
		var n int
		switch r.Intn(6) {
		case 0:
			n = 1
		case 1:
			n = 15 + r.Intn(4) // around one keystream block
		case 2:
			n = 31 + r.Intn(3)
		case 3:
			n = limit
		default:
			n = 1 + r.Intn(limit)
		}
		if n > limit {
			n = limit
		}
		f.AppBytes = r.Bytes(n)
	}
	return f
}

// ToLib builds the library value for the frame (plaintext, MIC unset).
func (f Frame) ToLib() *lorawan.PHYPayload { return f.toLib(true) }

// ToLibWhole is ToLib with the application bytes in one piece (how the bytes
// are spread over the items of FRMPayload is the caller's choice; a sender
// that refuses several items is asked again with one).
func (f Frame) ToLibWhole() *lorawan.PHYPayload { return f.toLib(false) }

// InPieces reports whether ToLib hands the application bytes over in two items.
func (f Frame) InPieces() bool {
	n := len(f.AppBytes)
	return f.HasPort && f.FPort != 0 && n >= 2 && (int(f.AppBytes[0])+n)%5 == 0
}

func (f Frame) toLib(pieces bool) *lorawan.PHYPayload {
	mp := &lorawan.MACPayload{
		FHDR: lorawan.FHDR{
			DevAddr: lorawan.DevAddr(f.DevAddr),
			FCtrl:   lorawan.FCtrl{ADR: f.ADR, ADRACKReq: f.ADRACK, ACK: f.ACK},
			FCnt:    f.FCnt,
		},
	}
	if f.Uplink() {
		mp.FHDR.FCtrl.ClassB = f.Bit4
	} else {
		mp.FHDR.FCtrl.FPending = f.Bit4
	}
	for _, c := range f.FOpts {
		mp.FHDR.FOpts = append(mp.FHDR.FOpts, ToLibCmd(c))
	}
	if f.HasPort {
		p := f.FPort
		mp.FPort = &p
		if f.FPort == 0 {
			for _, c := range f.FRMCmds {
				mp.FRMPayload = append(mp.FRMPayload, ToLibCmd(c))
			}
		} else if n := len(f.AppBytes); pieces && f.InPieces() {
			// an application may hand its bytes over in pieces (FRMPayload is a
			// list): header and body, say
			k := 1 + int(f.AppBytes[1])%(n-1)
			mp.FRMPayload = []lorawan.Payload{
				&lorawan.DataPayload{Bytes: append([]byte(nil), f.AppBytes[:k]...)},
				&lorawan.DataPayload{Bytes: append([]byte(nil), f.AppBytes[k:]...)},
			}
		} else if len(f.AppBytes) > 0 {
			mp.FRMPayload = []lorawan.Payload{&lorawan.DataPayload{Bytes: append([]byte(nil), f.AppBytes...)}}
		} else if f.EmptyElem {
			mp.FRMPayload = []lorawan.Payload{&lorawan.DataPayload{}}
		}
	}
	return &lorawan.PHYPayload{
		MHDR:       lorawan.MHDR{MType: lorawan.MType(f.MType), Major: lorawan.LoRaWANR1},
		MACPayload: mp,
	}
}

// FromLibFrame converts a received, validated and decrypted library frame
// back into the harness representation; ok=false if it has an unexpected
// shape (payload types).
func FromLibFrame(phy *lorawan.PHYPayload) (Frame, bool) {
	var f Frame
	mp, ok := phy.MACPayload.(*lorawan.MACPayload)
	if !ok {
		return f, false
	}
	f.MType = byte(phy.MHDR.MType)
	f.DevAddr = [4]byte(mp.FHDR.DevAddr)
	f.ADR = mp.FHDR.FCtrl.ADR
	f.ADRACK = mp.FHDR.FCtrl.ADRACKReq
	f.ACK = mp.FHDR.FCtrl.ACK
	if f.Uplink() {
		f.Bit4 = mp.FHDR.FCtrl.ClassB
	} else {
		f.Bit4 = mp.FHDR.FCtrl.FPending
	}
	f.FCnt = mp.FHDR.FCnt
	if len(mp.FHDR.FOpts) > 0 {
		cs, ok := FromLibPayloads(f.Uplink(), mp.FHDR.FOpts)
		if !ok {
			return f, false
		}
		f.FOpts = cs
	}
	if mp.FPort != nil {
		f.HasPort = true
		f.FPort = *mp.FPort
		if f.FPort == 0 {
			if len(mp.FRMPayload) > 0 {
				cs, ok := FromLibPayloads(f.Uplink(), mp.FRMPayload)
				if !ok {
					return f, false
				}
				f.FRMCmds = cs
			}
		} else {
			for _, p := range mp.FRMPayload {
				dp, ok := p.(*lorawan.DataPayload)
				if !ok {
					return f, false
				}
				f.AppBytes = append(f.AppBytes, dp.Bytes...)
			}
		}
	} else if len(mp.FRMPayload) > 0 {
		return f, false
	}
	return f, true
}

// SameContent compares what the property promises: MAC commands, port and
// application bytes (plus the header flags and the 16 wire bits of FCnt).
func (f Frame) SameContent(o Frame) (bool, string) {
	if f.MType != o.MType || f.DevAddr != o.DevAddr {
		return false, "mtype/devaddr"
	}
	if f.ADR != o.ADR || f.ADRACK != o.ADRACK || f.ACK != o.ACK || f.Bit4 != o.Bit4 {
		return false, "fctrl"
	}
	if f.FCnt != o.FCnt {
		return false, "fcnt"
	}
	if len(f.FOpts) != len(o.FOpts) {
		return false, fmt.Sprintf("fopts count %d vs %d", len(f.FOpts), len(o.FOpts))
	}
	for i := range f.FOpts {
		if !f.FOpts[i].Equal(o.FOpts[i]) {
			return false, fmt.Sprintf("fopts[%d] %v vs %v", i, f.FOpts[i], o.FOpts[i])
		}
	}
	if f.HasPort != o.HasPort || f.FPort != o.FPort {
		return false, "fport"
	}
	if len(f.FRMCmds) != len(o.FRMCmds) {
		return false, fmt.Sprintf("frm cmd count %d vs %d", len(f.FRMCmds), len(o.FRMCmds))
	}
	for i := range f.FRMCmds {
		if !f.FRMCmds[i].Equal(o.FRMCmds[i]) {
			return false, fmt.Sprintf("frmcmd[%d] %v vs %v", i, f.FRMCmds[i], o.FRMCmds[i])
		}
	}
	if string(f.AppBytes) != string(o.AppBytes) {
		return false, "app bytes"
	}
	return true, ""
}
