package spec

import (
	"fmt"
	"time"

	"github.com/brocaar/lorawan"

	"verif/sim"
)

// Cmd is the harness's own representation of a MAC command: direction, CID
// and either semantic field values (standard commands) or raw bytes
// (proprietary CIDs >= 0x80).
type Cmd struct {
	Up  bool
	CID byte
	F   []int64
	Raw []byte
}

func (c Cmd) String() string {
	d := "down"
	if c.Up {
		d = "up"
	}
	if c.CID >= 0x80 {
		return fmt.Sprintf("%s/0x%02x raw=%x", d, c.CID, c.Raw)
	}
	return fmt.Sprintf("%s/0x%02x %v", d, c.CID, c.F)
}

func (c Cmd) Equal(o Cmd) bool {
	if c.Up != o.Up || c.CID != o.CID || len(c.F) != len(o.F) || len(c.Raw) != len(o.Raw) {
		return false
	}
	for i := range c.F {
		if c.F[i] != o.F[i] {
			return false
		}
	}
	for i := range c.Raw {
		if c.Raw[i] != o.Raw[i] {
			return false
		}
	}
	return true
}

// Field describes one field of a standard MAC command: the range the
// specification defines (MustLo..MustHi must be accepted by an encoder) and
// the domain of the Go type that carries it (for out-of-range generation).
type Field struct {
	Name         string
	MustLo       int64
	MustHi       int64
	TypeLo       int64
	TypeHi       int64
	Freq         bool // frequency in Hz: must-accept values are multiples of 100 below 2^24*100
	Freq24       bool // NewChannelReq: additionally 200 Hz multiples from 2.4 GHz up to 2^24*200
	Bool         bool
	Enum         []int64 // if set: the only values generated (defined enum values)
	Bounds       []int64 // extra boundary values for wild generation
	MustOnlyEven bool
	// Legacy: values an earlier revision of the specification defines and a
	// sender may therefore legitimately use (generated now and then); the
	// encoder is not obliged to take them
	Legacy []int64
}

// CmdDesc describes one standard MAC command (direction x CID).
type CmdDesc struct {
	Name    string
	Up      bool
	CID     byte
	Size    int // payload size in bytes, from the LoRaWAN 1.0.4 / 1.1 command tables
	Fields  []Field
	ToLib   func(f []int64) lorawan.MACCommandPayload
	FromLib func(p lorawan.MACCommandPayload) ([]int64, bool)
}

func b2i(b bool) int64 {
	if b {
		return 1
	}
	return 0
}

func u8(name string, hi int64) Field {
	return Field{Name: name, MustLo: 0, MustHi: hi, TypeLo: 0, TypeHi: 255}
}
func boolF(name string) Field {
	return Field{Name: name, MustLo: 0, MustHi: 1, TypeLo: 0, TypeHi: 1, Bool: true}
}
func freqF(name string) Field {
	return Field{Name: name, Freq: true, TypeLo: 0, TypeHi: 0xffffffff,
		Bounds: []int64{0, 100, 99, 868100000, 868100050, 1677721500, 1677721600, 1677721700, 2400000000, 2400000100, 2400000200, 2423000000, 3355443000, 3355443200, 4294967295, 4294967200}}
}

const gpsMaxSec = int64(0xffffffff)

// Descs is the table of the 29 standard commands that carry a payload, plus
// the payload-less ones (Size 0, no fields).
var Descs = []CmdDesc{
	// ---- downlink (network -> device) ----
	{Name: "ResetConf", Up: false, CID: 0x01, Size: 1, Fields: []Field{{Name: "Minor", MustLo: 1, MustHi: 1, TypeLo: 0, TypeHi: 255}},
		ToLib: func(f []int64) lorawan.MACCommandPayload {
			return &lorawan.ResetConfPayload{ServLoRaWANVersion: lorawan.Version{Minor: uint8(f[0])}}
		},
		FromLib: func(p lorawan.MACCommandPayload) ([]int64, bool) {
			v, ok := p.(*lorawan.ResetConfPayload)
			if !ok {
				return nil, false
			}
			return []int64{int64(v.ServLoRaWANVersion.Minor)}, true
		}},
	{Name: "LinkCheckAns", Up: false, CID: 0x02, Size: 2, Fields: []Field{u8("Margin", 254), u8("GwCnt", 255)},
		ToLib: func(f []int64) lorawan.MACCommandPayload {
			return &lorawan.LinkCheckAnsPayload{Margin: uint8(f[0]), GwCnt: uint8(f[1])}
		},
		FromLib: func(p lorawan.MACCommandPayload) ([]int64, bool) {
			v, ok := p.(*lorawan.LinkCheckAnsPayload)
			if !ok {
				return nil, false
			}
			return []int64{int64(v.Margin), int64(v.GwCnt)}, true
		}},
	{Name: "LinkADRReq", Up: false, CID: 0x03, Size: 4, Fields: []Field{u8("DataRate", 15), u8("TXPower", 15),
		{Name: "ChMask", MustLo: 0, MustHi: 0xffff, TypeLo: 0, TypeHi: 0xffff}, u8("ChMaskCntl", 7), u8("NbRep", 15)},
		ToLib: func(f []int64) lorawan.MACCommandPayload {
			var cm lorawan.ChMask
			for i := 0; i < 16; i++ {
				cm[i] = f[2]&(1<<uint(i)) != 0
			}
			return &lorawan.LinkADRReqPayload{DataRate: uint8(f[0]), TXPower: uint8(f[1]), ChMask: cm,
				Redundancy: lorawan.Redundancy{ChMaskCntl: uint8(f[3]), NbRep: uint8(f[4])}}
		},
		FromLib: func(p lorawan.MACCommandPayload) ([]int64, bool) {
			v, ok := p.(*lorawan.LinkADRReqPayload)
			if !ok {
				return nil, false
			}
			var m int64
			for i := 0; i < 16; i++ {
				if v.ChMask[i] {
					m |= 1 << uint(i)
				}
			}
			return []int64{int64(v.DataRate), int64(v.TXPower), m, int64(v.Redundancy.ChMaskCntl), int64(v.Redundancy.NbRep)}, true
		}},
	{Name: "DutyCycleReq", Up: false, CID: 0x04, Size: 1, Fields: []Field{{Name: "MaxDCycle", MustLo: 0, MustHi: 15, TypeLo: 0, TypeHi: 255, Legacy: []int64{255}}}, // 255: "device off" of LoRaWAN 1.0.x
		ToLib: func(f []int64) lorawan.MACCommandPayload {
			return &lorawan.DutyCycleReqPayload{MaxDCycle: uint8(f[0])}
		},
		FromLib: func(p lorawan.MACCommandPayload) ([]int64, bool) {
			v, ok := p.(*lorawan.DutyCycleReqPayload)
			if !ok {
				return nil, false
			}
			return []int64{int64(v.MaxDCycle)}, true
		}},
	{Name: "RXParamSetupReq", Up: false, CID: 0x05, Size: 4, Fields: []Field{u8("RX1DROffset", 7), u8("RX2DataRate", 15), freqF("Frequency"),
		{Name: "OptNeg(RFU)", MustLo: 0, MustHi: 0, TypeLo: 0, TypeHi: 1, Bool: true}},
		ToLib: func(f []int64) lorawan.MACCommandPayload {
			return &lorawan.RXParamSetupReqPayload{Frequency: uint32(f[2]), DLSettings: lorawan.DLSettings{RX1DROffset: uint8(f[0]), RX2DataRate: uint8(f[1]), OptNeg: f[3] != 0}}
		},
		FromLib: func(p lorawan.MACCommandPayload) ([]int64, bool) {
			v, ok := p.(*lorawan.RXParamSetupReqPayload)
			if !ok {
				return nil, false
			}
			return []int64{int64(v.DLSettings.RX1DROffset), int64(v.DLSettings.RX2DataRate), int64(v.Frequency), b2i(v.DLSettings.OptNeg)}, true
		}},
	{Name: "DevStatusReq", Up: false, CID: 0x06, Size: 0},
	{Name: "NewChannelReq", Up: false, CID: 0x07, Size: 5, Fields: []Field{u8("ChIndex", 255),
		func() Field { f := freqF("Freq"); f.Freq24 = true; return f }(), u8("MaxDR", 15), u8("MinDR", 15)},
		ToLib: func(f []int64) lorawan.MACCommandPayload {
			return &lorawan.NewChannelReqPayload{ChIndex: uint8(f[0]), Freq: uint32(f[1]), MaxDR: uint8(f[2]), MinDR: uint8(f[3])}
		},
		FromLib: func(p lorawan.MACCommandPayload) ([]int64, bool) {
			v, ok := p.(*lorawan.NewChannelReqPayload)
			if !ok {
				return nil, false
			}
			return []int64{int64(v.ChIndex), int64(v.Freq), int64(v.MaxDR), int64(v.MinDR)}, true
		}},
	{Name: "RXTimingSetupReq", Up: false, CID: 0x08, Size: 1, Fields: []Field{u8("Delay", 15)},
		ToLib: func(f []int64) lorawan.MACCommandPayload {
			return &lorawan.RXTimingSetupReqPayload{Delay: uint8(f[0])}
		},
		FromLib: func(p lorawan.MACCommandPayload) ([]int64, bool) {
			v, ok := p.(*lorawan.RXTimingSetupReqPayload)
			if !ok {
				return nil, false
			}
			return []int64{int64(v.Delay)}, true
		}},
	{Name: "TXParamSetupReq", Up: false, CID: 0x09, Size: 1, Fields: []Field{
		{Name: "DownlinkDwellTime", MustLo: 0, MustHi: 1, TypeLo: -3, TypeHi: 6},
		{Name: "UplinkDwellTime", MustLo: 0, MustHi: 1, TypeLo: -3, TypeHi: 6}, u8("MaxEIRP", 15)},
		ToLib: func(f []int64) lorawan.MACCommandPayload {
			return &lorawan.TXParamSetupReqPayload{DownlinkDwelltime: lorawan.DwellTime(f[0]), UplinkDwellTime: lorawan.DwellTime(f[1]), MaxEIRP: uint8(f[2])}
		},
		FromLib: func(p lorawan.MACCommandPayload) ([]int64, bool) {
			v, ok := p.(*lorawan.TXParamSetupReqPayload)
			if !ok {
				return nil, false
			}
			return []int64{int64(v.DownlinkDwelltime), int64(v.UplinkDwellTime), int64(v.MaxEIRP)}, true
		}},
	{Name: "DLChannelReq", Up: false, CID: 0x0a, Size: 4, Fields: []Field{u8("ChIndex", 255), freqF("Freq")},
		ToLib: func(f []int64) lorawan.MACCommandPayload {
			return &lorawan.DLChannelReqPayload{ChIndex: uint8(f[0]), Freq: uint32(f[1])}
		},
		FromLib: func(p lorawan.MACCommandPayload) ([]int64, bool) {
			v, ok := p.(*lorawan.DLChannelReqPayload)
			if !ok {
				return nil, false
			}
			return []int64{int64(v.ChIndex), int64(v.Freq)}, true
		}},
	{Name: "RekeyConf", Up: false, CID: 0x0b, Size: 1, Fields: []Field{{Name: "Minor", MustLo: 1, MustHi: 1, TypeLo: 0, TypeHi: 255}},
		ToLib: func(f []int64) lorawan.MACCommandPayload {
			return &lorawan.RekeyConfPayload{ServLoRaWANVersion: lorawan.Version{Minor: uint8(f[0])}}
		},
		FromLib: func(p lorawan.MACCommandPayload) ([]int64, bool) {
			v, ok := p.(*lorawan.RekeyConfPayload)
			if !ok {
				return nil, false
			}
			return []int64{int64(v.ServLoRaWANVersion.Minor)}, true
		}},
	{Name: "ADRParamSetupReq", Up: false, CID: 0x0c, Size: 1, Fields: []Field{u8("LimitExp", 15), u8("DelayExp", 15)},
		ToLib: func(f []int64) lorawan.MACCommandPayload {
			return &lorawan.ADRParamSetupReqPayload{ADRParam: lorawan.ADRParam{LimitExp: uint8(f[0]), DelayExp: uint8(f[1])}}
		},
		FromLib: func(p lorawan.MACCommandPayload) ([]int64, bool) {
			v, ok := p.(*lorawan.ADRParamSetupReqPayload)
			if !ok {
				return nil, false
			}
			return []int64{int64(v.ADRParam.LimitExp), int64(v.ADRParam.DelayExp)}, true
		}},
	{Name: "DeviceTimeAns", Up: false, CID: 0x0d, Size: 5, Fields: []Field{
		{Name: "Seconds", MustLo: 0, MustHi: gpsMaxSec, TypeLo: -9223372036, TypeHi: 9223372036, Bounds: []int64{0, 1, gpsMaxSec, gpsMaxSec + 1, -1, 1 << 31, 1<<31 - 1}},
		{Name: "Frac256", MustLo: 0, MustHi: 255, TypeLo: 0, TypeHi: 255}},
		ToLib: func(f []int64) lorawan.MACCommandPayload {
			return &lorawan.DeviceTimeAnsPayload{TimeSinceGPSEpoch: time.Duration(f[0])*time.Second + time.Duration(f[1])*3906250}
		},
		FromLib: func(p lorawan.MACCommandPayload) ([]int64, bool) {
			v, ok := p.(*lorawan.DeviceTimeAnsPayload)
			if !ok {
				return nil, false
			}
			d := v.TimeSinceGPSEpoch
			sec := int64(d / time.Second)
			rem := d - time.Duration(sec)*time.Second
			if rem < 0 {
				sec--
				rem += time.Second
			}
			return []int64{sec, int64(rem / 3906250)}, true
		}},
	{Name: "ForceRejoinReq", Up: false, CID: 0x0e, Size: 2, Fields: []Field{u8("Period", 7), u8("MaxRetries", 7),
		{Name: "RejoinType", MustLo: 0, MustHi: 2, TypeLo: 0, TypeHi: 255}, u8("DR", 15)},
		ToLib: func(f []int64) lorawan.MACCommandPayload {
			return &lorawan.ForceRejoinReqPayload{Period: uint8(f[0]), MaxRetries: uint8(f[1]), RejoinType: uint8(f[2]), DR: uint8(f[3])}
		},
		FromLib: func(p lorawan.MACCommandPayload) ([]int64, bool) {
			v, ok := p.(*lorawan.ForceRejoinReqPayload)
			if !ok {
				return nil, false
			}
			return []int64{int64(v.Period), int64(v.MaxRetries), int64(v.RejoinType), int64(v.DR)}, true
		}},
	{Name: "RejoinParamSetupReq", Up: false, CID: 0x0f, Size: 1, Fields: []Field{u8("MaxTimeN", 15), u8("MaxCountN", 15)},
		ToLib: func(f []int64) lorawan.MACCommandPayload {
			return &lorawan.RejoinParamSetupReqPayload{MaxTimeN: uint8(f[0]), MaxCountN: uint8(f[1])}
		},
		FromLib: func(p lorawan.MACCommandPayload) ([]int64, bool) {
			v, ok := p.(*lorawan.RejoinParamSetupReqPayload)
			if !ok {
				return nil, false
			}
			return []int64{int64(v.MaxTimeN), int64(v.MaxCountN)}, true
		}},
	{Name: "PingSlotInfoAns", Up: false, CID: 0x10, Size: 0},
	{Name: "PingSlotChannelReq", Up: false, CID: 0x11, Size: 4, Fields: []Field{freqF("Frequency"), u8("DR", 15)},
		ToLib: func(f []int64) lorawan.MACCommandPayload {
			return &lorawan.PingSlotChannelReqPayload{Frequency: uint32(f[0]), DR: uint8(f[1])}
		},
		FromLib: func(p lorawan.MACCommandPayload) ([]int64, bool) {
			v, ok := p.(*lorawan.PingSlotChannelReqPayload)
			if !ok {
				return nil, false
			}
			return []int64{int64(v.Frequency), int64(v.DR)}, true
		}},
	{Name: "BeaconFreqReq", Up: false, CID: 0x13, Size: 3, Fields: []Field{freqF("Frequency")},
		ToLib: func(f []int64) lorawan.MACCommandPayload {
			return &lorawan.BeaconFreqReqPayload{Frequency: uint32(f[0])}
		},
		FromLib: func(p lorawan.MACCommandPayload) ([]int64, bool) {
			v, ok := p.(*lorawan.BeaconFreqReqPayload)
			if !ok {
				return nil, false
			}
			return []int64{int64(v.Frequency)}, true
		}},
	{Name: "DeviceModeConf", Up: false, CID: 0x20, Size: 1, Fields: []Field{{Name: "Class", MustLo: 0, MustHi: 2, TypeLo: 0, TypeHi: 255, MustOnlyEven: true}},
		ToLib: func(f []int64) lorawan.MACCommandPayload {
			return &lorawan.DeviceModeConfPayload{Class: lorawan.DeviceModeClass(f[0])}
		},
		FromLib: func(p lorawan.MACCommandPayload) ([]int64, bool) {
			v, ok := p.(*lorawan.DeviceModeConfPayload)
			if !ok {
				return nil, false
			}
			return []int64{int64(v.Class)}, true
		}},

	// ---- uplink (device -> network) ----
	{Name: "ResetInd", Up: true, CID: 0x01, Size: 1, Fields: []Field{{Name: "Minor", MustLo: 1, MustHi: 1, TypeLo: 0, TypeHi: 255}},
		ToLib: func(f []int64) lorawan.MACCommandPayload {
			return &lorawan.ResetIndPayload{DevLoRaWANVersion: lorawan.Version{Minor: uint8(f[0])}}
		},
		FromLib: func(p lorawan.MACCommandPayload) ([]int64, bool) {
			v, ok := p.(*lorawan.ResetIndPayload)
			if !ok {
				return nil, false
			}
			return []int64{int64(v.DevLoRaWANVersion.Minor)}, true
		}},
	{Name: "LinkCheckReq", Up: true, CID: 0x02, Size: 0},
	{Name: "LinkADRAns", Up: true, CID: 0x03, Size: 1, Fields: []Field{boolF("ChannelMaskACK"), boolF("DataRateACK"), boolF("PowerACK")},
		ToLib: func(f []int64) lorawan.MACCommandPayload {
			return &lorawan.LinkADRAnsPayload{ChannelMaskACK: f[0] != 0, DataRateACK: f[1] != 0, PowerACK: f[2] != 0}
		},
		FromLib: func(p lorawan.MACCommandPayload) ([]int64, bool) {
			v, ok := p.(*lorawan.LinkADRAnsPayload)
			if !ok {
				return nil, false
			}
			return []int64{b2i(v.ChannelMaskACK), b2i(v.DataRateACK), b2i(v.PowerACK)}, true
		}},
	{Name: "DutyCycleAns", Up: true, CID: 0x04, Size: 0},
	{Name: "RXParamSetupAns", Up: true, CID: 0x05, Size: 1, Fields: []Field{boolF("ChannelACK"), boolF("RX2DataRateACK"), boolF("RX1DROffsetACK")},
		ToLib: func(f []int64) lorawan.MACCommandPayload {
			return &lorawan.RXParamSetupAnsPayload{ChannelACK: f[0] != 0, RX2DataRateACK: f[1] != 0, RX1DROffsetACK: f[2] != 0}
		},
		FromLib: func(p lorawan.MACCommandPayload) ([]int64, bool) {
			v, ok := p.(*lorawan.RXParamSetupAnsPayload)
			if !ok {
				return nil, false
			}
			return []int64{b2i(v.ChannelACK), b2i(v.RX2DataRateACK), b2i(v.RX1DROffsetACK)}, true
		}},
	{Name: "DevStatusAns", Up: true, CID: 0x06, Size: 2, Fields: []Field{u8("Battery", 255), {Name: "Margin", MustLo: -32, MustHi: 31, TypeLo: -128, TypeHi: 127, Bounds: []int64{-33, -32, 31, 32, -128, 127, 0, -1}}},
		ToLib: func(f []int64) lorawan.MACCommandPayload {
			return &lorawan.DevStatusAnsPayload{Battery: uint8(f[0]), Margin: int8(f[1])}
		},
		FromLib: func(p lorawan.MACCommandPayload) ([]int64, bool) {
			v, ok := p.(*lorawan.DevStatusAnsPayload)
			if !ok {
				return nil, false
			}
			return []int64{int64(v.Battery), int64(v.Margin)}, true
		}},
	{Name: "NewChannelAns", Up: true, CID: 0x07, Size: 1, Fields: []Field{boolF("ChannelFrequencyOK"), boolF("DataRateRangeOK")},
		ToLib: func(f []int64) lorawan.MACCommandPayload {
			return &lorawan.NewChannelAnsPayload{ChannelFrequencyOK: f[0] != 0, DataRateRangeOK: f[1] != 0}
		},
		FromLib: func(p lorawan.MACCommandPayload) ([]int64, bool) {
			v, ok := p.(*lorawan.NewChannelAnsPayload)
			if !ok {
				return nil, false
			}
			return []int64{b2i(v.ChannelFrequencyOK), b2i(v.DataRateRangeOK)}, true
		}},
	{Name: "RXTimingSetupAns", Up: true, CID: 0x08, Size: 0},
	{Name: "TXParamSetupAns", Up: true, CID: 0x09, Size: 0},
	{Name: "DLChannelAns", Up: true, CID: 0x0a, Size: 1, Fields: []Field{boolF("UplinkFrequencyExists"), boolF("ChannelFrequencyOK")},
		ToLib: func(f []int64) lorawan.MACCommandPayload {
			return &lorawan.DLChannelAnsPayload{UplinkFrequencyExists: f[0] != 0, ChannelFrequencyOK: f[1] != 0}
		},
		FromLib: func(p lorawan.MACCommandPayload) ([]int64, bool) {
			v, ok := p.(*lorawan.DLChannelAnsPayload)
			if !ok {
				return nil, false
			}
			return []int64{b2i(v.UplinkFrequencyExists), b2i(v.ChannelFrequencyOK)}, true
		}},
	{Name: "RekeyInd", Up: true, CID: 0x0b, Size: 1, Fields: []Field{{Name: "Minor", MustLo: 1, MustHi: 1, TypeLo: 0, TypeHi: 255}},
		ToLib: func(f []int64) lorawan.MACCommandPayload {
			return &lorawan.RekeyIndPayload{DevLoRaWANVersion: lorawan.Version{Minor: uint8(f[0])}}
		},
		FromLib: func(p lorawan.MACCommandPayload) ([]int64, bool) {
			v, ok := p.(*lorawan.RekeyIndPayload)
			if !ok {
				return nil, false
			}
			return []int64{int64(v.DevLoRaWANVersion.Minor)}, true
		}},
	{Name: "ADRParamSetupAns", Up: true, CID: 0x0c, Size: 0},
	{Name: "DeviceTimeReq", Up: true, CID: 0x0d, Size: 0},
	{Name: "RejoinParamSetupAns", Up: true, CID: 0x0f, Size: 1, Fields: []Field{boolF("TimeOK")},
		ToLib: func(f []int64) lorawan.MACCommandPayload {
			return &lorawan.RejoinParamSetupAnsPayload{TimeOK: f[0] != 0}
		},
		FromLib: func(p lorawan.MACCommandPayload) ([]int64, bool) {
			v, ok := p.(*lorawan.RejoinParamSetupAnsPayload)
			if !ok {
				return nil, false
			}
			return []int64{b2i(v.TimeOK)}, true
		}},
	{Name: "PingSlotInfoReq", Up: true, CID: 0x10, Size: 1, Fields: []Field{u8("Periodicity", 7)},
		ToLib: func(f []int64) lorawan.MACCommandPayload {
			return &lorawan.PingSlotInfoReqPayload{Periodicity: uint8(f[0])}
		},
		FromLib: func(p lorawan.MACCommandPayload) ([]int64, bool) {
			v, ok := p.(*lorawan.PingSlotInfoReqPayload)
			if !ok {
				return nil, false
			}
			return []int64{int64(v.Periodicity)}, true
		}},
	{Name: "PingSlotChannelAns", Up: true, CID: 0x11, Size: 1, Fields: []Field{boolF("DataRateOK"), boolF("ChannelFrequencyOK")},
		ToLib: func(f []int64) lorawan.MACCommandPayload {
			return &lorawan.PingSlotChannelAnsPayload{DataRateOK: f[0] != 0, ChannelFrequencyOK: f[1] != 0}
		},
		FromLib: func(p lorawan.MACCommandPayload) ([]int64, bool) {
			v, ok := p.(*lorawan.PingSlotChannelAnsPayload)
			if !ok {
				return nil, false
			}
			return []int64{b2i(v.DataRateOK), b2i(v.ChannelFrequencyOK)}, true
		}},
	{Name: "BeaconFreqAns", Up: true, CID: 0x13, Size: 1, Fields: []Field{boolF("BeaconFrequencyOK")},
		ToLib: func(f []int64) lorawan.MACCommandPayload {
			return &lorawan.BeaconFreqAnsPayload{BeaconFrequencyOK: f[0] != 0}
		},
		FromLib: func(p lorawan.MACCommandPayload) ([]int64, bool) {
			v, ok := p.(*lorawan.BeaconFreqAnsPayload)
			if !ok {
				return nil, false
			}
			return []int64{b2i(v.BeaconFrequencyOK)}, true
		}},
	{Name: "DeviceModeInd", Up: true, CID: 0x20, Size: 1, Fields: []Field{{Name: "Class", MustLo: 0, MustHi: 2, TypeLo: 0, TypeHi: 255, MustOnlyEven: true}},
		ToLib: func(f []int64) lorawan.MACCommandPayload {
			return &lorawan.DeviceModeIndPayload{Class: lorawan.DeviceModeClass(f[0])}
		},
		FromLib: func(p lorawan.MACCommandPayload) ([]int64, bool) {
			v, ok := p.(*lorawan.DeviceModeIndPayload)
			if !ok {
				return nil, false
			}
			return []int64{int64(v.Class)}, true
		}},
}

var descIdx = func() map[int]*CmdDesc {
	m := map[int]*CmdDesc{}
	for i := range Descs {
		d := &Descs[i]
		m[key(d.Up, d.CID)] = d
	}
	return m
}()

func key(up bool, cid byte) int {
	k := int(cid)
	if up {
		k |= 0x100
	}
	return k
}

// Desc returns the descriptor of a standard command, or nil.
func Desc(up bool, cid byte) *CmdDesc { return descIdx[key(up, cid)] }

// DescsDir returns the descriptors of one direction, in table order.
func DescsDir(up bool) []*CmdDesc {
	var out []*CmdDesc
	for i := range Descs {
		if Descs[i].Up == up {
			out = append(out, &Descs[i])
		}
	}
	return out
}

// MustAccept reports whether value v of field f lies in the range the
// specification defines for it.
func (f Field) MustAccept(v int64) bool {
	if f.Freq {
		// what the specification obliges an encoder to take: 0 (unused /
		// disable) and multiples of 100 Hz from 100 MHz up to the end of the
		// 24-bit field ("values representing frequencies below 100 MHz are
		// reserved"). NewChannelReq's 2.4 GHz extension (raw values >= 12 000 000
		// in 200 Hz steps) is this library's own: a library that drops or moves
		// it may refuse those values - whatever IS accepted must still come
		// back unchanged (lossless-or-error is judged for every value).
		if v < 0 || v%100 != 0 || (v > 0 && v < 100000000) {
			return false
		}
		if f.Freq24 {
			return v/100 < 12000000
		}
		return v/100 < 1<<24
	}
	if f.MustOnlyEven && v%2 != 0 {
		return false
	}
	return v >= f.MustLo && v <= f.MustHi
}

// GenValid draws a value the specification allows.
func (f Field) GenValid(r *sim.Rand) int64 {
	if f.Enum != nil {
		return f.Enum[r.Intn(len(f.Enum))]
	}
	if f.Freq {
		switch r.Intn(6) {
		case 0:
			return 0
		case 1:
			if f.Freq24 {
				return (12000000 - 1) * 100
			}
			return (1<<24 - 1) * 100
		case 2:
			if f.Freq24 {
				return 2400000000 + int64(r.Intn(500000))*200
			}
		case 3:
			if f.Freq24 {
				// both ends of the 200 Hz range
				return []int64{2400000000, 2400000200, (1<<24 - 1) * 200, (1<<24 - 2) * 200}[r.Intn(4)]
			}
			return []int64{100, (1<<24 - 2) * 100}[r.Intn(2)]
		}
		if f.Freq24 {
			return int64(r.Intn(12000000)) * 100
		}
		return int64(r.Intn(1<<24)) * 100
	}
	if len(f.Legacy) > 0 && r.Intn(6) == 0 {
		return f.Legacy[r.Intn(len(f.Legacy))]
	}
	span := f.MustHi - f.MustLo + 1
	var v int64
	switch r.Intn(5) {
	case 0:
		v = f.MustLo
	case 1:
		v = f.MustHi
	default:
		v = f.MustLo + int64(r.U64()%uint64(span))
	}
	if f.MustOnlyEven && v%2 != 0 {
		v--
	}
	return v
}

// GenWild draws from the whole domain of the Go type, biased to boundaries.
func (f Field) GenWild(r *sim.Rand) int64 {
	if f.Enum != nil {
		return f.Enum[r.Intn(len(f.Enum))]
	}
	if f.Bool {
		return int64(r.Intn(2))
	}
	if len(f.Bounds) > 0 && r.Intn(3) == 0 {
		return f.Bounds[r.Intn(len(f.Bounds))]
	}
	switch r.Intn(6) {
	case 0:
		return f.TypeLo
	case 1:
		return f.TypeHi
	case 2:
		if f.MustHi+1 <= f.TypeHi {
			return f.MustHi + 1
		}
		return f.TypeHi
	case 3:
		if f.Freq {
			// every residue of the 100 Hz / 200 Hz steps, below and above the 2.4 GHz switch
			off := []int64{0, 1, 2, 50, 99, 100, 101, 150, 199}[r.Intn(9)]
			switch r.Intn(3) {
			case 0:
				return 2400000000 + int64(r.Intn(4000000))*200 + off
			case 1:
				return int64(r.Intn(12000000))*100 + off%100
			default:
				return 2400000000 + int64(r.Intn(1000))*100
			}
		}
	}
	span := uint64(f.TypeHi-f.TypeLo) + 1
	v := f.TypeLo + int64(r.U64()%span)
	if v > f.TypeHi {
		v = f.TypeHi
	}
	if v < f.TypeLo {
		v = f.TypeLo
	}
	return v
}

// GenCmd draws a spec-valid command of the descriptor.
func (d *CmdDesc) GenCmd(r *sim.Rand) Cmd {
	c := Cmd{Up: d.Up, CID: d.CID}
	for _, f := range d.Fields {
		c.F = append(c.F, f.GenValid(r))
	}
	return c
}

// GenWildCmd draws a command whose fields come from the full type domains.
func (d *CmdDesc) GenWildCmd(r *sim.Rand) Cmd {
	c := Cmd{Up: d.Up, CID: d.CID}
	for _, f := range d.Fields {
		if r.Intn(2) == 0 {
			c.F = append(c.F, f.GenValid(r))
		} else {
			c.F = append(c.F, f.GenWild(r))
		}
	}
	return c
}

// InSpec reports whether all fields of c are within the specified ranges.
func (d *CmdDesc) InSpec(c Cmd) bool {
	for i, f := range d.Fields {
		if !f.MustAccept(c.F[i]) {
			return false
		}
	}
	return true
}

// ToLibCmd converts a Cmd into the library's MACCommand.
func ToLibCmd(c Cmd) *lorawan.MACCommand {
	if c.CID >= 0x80 {
		mc := &lorawan.MACCommand{CID: lorawan.CID(c.CID)}
		if len(c.Raw) > 0 {
			// a caller's slice may have spare capacity (cut from a larger buffer,
			// built with append, decoded from JSON/base64): one payload in three
			// has one, one in three several bytes of it
			extra := []int{0, 1, 6}[(len(c.Raw)+int(c.Raw[0]))%3]
			b := make([]byte, len(c.Raw), len(c.Raw)+extra)
			copy(b, c.Raw)
			for i := range b[len(b):cap(b)] {
				b[len(b):cap(b)][i] = 0xC5
			}
			mc.Payload = &lorawan.ProprietaryMACCommandPayload{Bytes: b}
		}
		return mc
	}
	d := Desc(c.Up, c.CID)
	mc := &lorawan.MACCommand{CID: lorawan.CID(c.CID)}
	if d != nil && d.ToLib != nil {
		mc.Payload = d.ToLib(c.F)
	}
	return mc
}

// FromLibCmd converts a decoded library MACCommand into a Cmd. ok is false
// when the payload has an unexpected Go type for that direction/CID.
func FromLibCmd(up bool, mc *lorawan.MACCommand) (Cmd, bool) {
	c := Cmd{Up: up, CID: byte(mc.CID)}
	if mc.Payload == nil {
		return c, true
	}
	if pp, ok := mc.Payload.(*lorawan.ProprietaryMACCommandPayload); ok {
		c.Raw = append([]byte(nil), pp.Bytes...)
		return c, true
	}
	d := Desc(up, byte(mc.CID))
	if d != nil && d.Size == 0 && mc.Payload != nil {
		// a payload-less command may carry a typed empty payload
		if b, err := mc.Payload.MarshalBinary(); err == nil && len(b) == 0 {
			return c, true
		}
	}
	if d == nil || d.FromLib == nil {
		return c, false
	}
	f, ok := d.FromLib(mc.Payload)
	if !ok {
		return c, false
	}
	c.F = f
	return c, true
}

// FromLibPayloads converts a decoded FOpts/FRMPayload list.
func FromLibPayloads(up bool, pls []lorawan.Payload) ([]Cmd, bool) {
	var out []Cmd
	for _, p := range pls {
		mc, ok := p.(*lorawan.MACCommand)
		if !ok {
			return nil, false
		}
		c, ok := FromLibCmd(up, mc)
		if !ok {
			return nil, false
		}
		out = append(out, c)
	}
	return out, true
}

// WireSize is 1 + payload size for a command under the given proprietary
// registrations (model registry).
func WireSize(c Cmd) int {
	if c.CID >= 0x80 {
		return 1 + len(c.Raw)
	}
	if d := Desc(c.Up, c.CID); d != nil {
		return 1 + d.Size
	}
	return 1
}

// Split is the harness's own command-stream splitter: it cuts a byte stream
// into (CID, payload bytes) using size(cid); unknown CIDs have size 0. It
// returns ok=false when the stream ends inside a command.
type RawCmd struct {
	CID     byte
	Payload []byte
}

func Split(stream []byte, size func(cid byte) int) ([]RawCmd, bool) {
	var out []RawCmd
	for i := 0; i < len(stream); {
		cid := stream[i]
		n := size(cid)
		if i+1+n > len(stream) {
			return out, false
		}
		out = append(out, RawCmd{CID: cid, Payload: append([]byte(nil), stream[i+1:i+1+n]...)})
		i += 1 + n
	}
	return out, true
}

// StdSize returns the payload size of a standard command (0 if unknown).
func StdSize(up bool, cid byte) int {
	if d := Desc(up, cid); d != nil {
		return d.Size
	}
	return 0
}
