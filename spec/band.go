package spec

import "sort"

// Channel-plan reference model (properties C14 / C15): a list of channels
// updated by the same operation history as the band under test, never read
// back from the band's getters (except for the initial, standard channels).

type Chan struct {
	Freq         uint32
	MinDR, MaxDR int
	Enabled      bool
	Custom       bool
}

type Plan struct {
	Name          string
	Chans         []Chan
	SupportsExtra bool // dynamic channel plan region (Regional Parameters)
	CFMinDR       int  // data-rate range of channels announced in a CFList
	CFMaxDR       int
	Kind          int // PlanDynamic, PlanUS, PlanCN470
}

const (
	PlanDynamic = iota // up to 16 channels, ChMaskCntl 0 (6 = all on)
	PlanUS             // US915 / AU915: 64 x 125 kHz + 8 x 500 kHz
	PlanCN470          // 96 channels, ChMaskCntl 0..5
)

// PlanTraits returns what the Regional Parameters say about a region's
// channel plan, by common name.
func PlanTraits(name string) (supportsExtra bool, cfMin, cfMax, kind int) {
	switch name {
	case "US915", "AU915":
		return false, 0, 0, PlanUS
	case "CN470":
		return false, 0, 0, PlanCN470
	case "ISM2400":
		return true, 0, 7, PlanDynamic
	default:
		// EU868, EU433, CN779, AS923(-2,-3,-4), KR920, IN865, RU864
		return true, 0, 5, PlanDynamic
	}
}

func (p *Plan) Add(freq uint32, minDR, maxDR int, enabled bool) {
	p.Chans = append(p.Chans, Chan{Freq: freq, MinDR: minDR, MaxDR: maxDR, Enabled: enabled, Custom: true})
}

func (p *Plan) indices(f func(Chan) bool) []int {
	out := []int{}
	for i, c := range p.Chans {
		if f(c) {
			out = append(out, i)
		}
	}
	return out
}

func (p *Plan) All() []int         { return p.indices(func(Chan) bool { return true }) }
func (p *Plan) Standard() []int    { return p.indices(func(c Chan) bool { return !c.Custom }) }
func (p *Plan) CustomIdx() []int   { return p.indices(func(c Chan) bool { return c.Custom }) }
func (p *Plan) EnabledIdx() []int  { return p.indices(func(c Chan) bool { return c.Enabled }) }
func (p *Plan) DisabledIdx() []int { return p.indices(func(c Chan) bool { return !c.Enabled }) }

// CFListChannels is the channel-list CFList the plan should offer: the
// frequencies of the first five custom channels that have the CFList
// data-rate range, in index order.
func (p *Plan) CFListChannels() []uint32 {
	var out []uint32
	for _, c := range p.Chans {
		if c.Custom && c.MinDR == p.CFMinDR && c.MaxDR == p.CFMaxDR && len(out) < 5 {
			out = append(out, c.Freq)
		}
	}
	return out
}

// CFListMasks is the channel-mask CFList of a fixed-plan region.
func (p *Plan) CFListMasks() [][16]bool {
	var out [][16]bool
	for i := 0; i < len(p.Chans); i += 16 {
		var m [16]bool
		for j := 0; j < 16 && i+j < len(p.Chans); j++ {
			m[j] = p.Chans[i+j].Enabled
		}
		out = append(out, m)
	}
	return out
}

// Target is what a LinkADRReq block must bring a device to: the network's
// enabled channels restricted to those the device can know (standard
// channels and custom channels already active on the device).
func (p *Plan) Target(device []int) []int {
	on := map[int]bool{}
	for _, c := range device {
		on[c] = true
	}
	out := []int{}
	for i, c := range p.Chans {
		if c.Enabled && (!c.Custom || on[i]) {
			out = append(out, i)
		}
	}
	return out
}

// LinkADR is one LinkADRReq as a device sees it.
type LinkADR struct {
	ChMaskCntl int
	ChMask     [16]bool
}

// ApplyLinkADR is the device model: it processes a block of LinkADRReq
// commands in order on the device's enabled-channel set, as the Regional
// Parameters define ChMaskCntl for the plan kind. ok=false means the block
// uses a ChMaskCntl value the model does not define for this plan kind.
func ApplyLinkADR(kind int, device []int, block []LinkADR) (result []int, ok bool) {
	on := map[int]bool{}
	for _, c := range device {
		on[c] = true
	}
	setBlock := func(base int, m [16]bool, n int) {
		for i := 0; i < n; i++ {
			if m[i] {
				on[base+i] = true
			} else {
				delete(on, base+i)
			}
		}
	}
	for _, l := range block {
		switch kind {
		case PlanDynamic:
			// the Regional Parameters define ChMaskCntl 0 for these regions
			// (16 channels); the library lets a network add more channels
			// and addresses block k with ChMaskCntl k, as CN470 does: the
			// model follows that generalisation
			if l.ChMaskCntl < 0 || l.ChMaskCntl > 5 {
				return nil, false
			}
			setBlock(16*l.ChMaskCntl, l.ChMask, 16)
		case PlanCN470:
			if l.ChMaskCntl < 0 || l.ChMaskCntl > 5 {
				return nil, false
			}
			setBlock(16*l.ChMaskCntl, l.ChMask, 16)
		case PlanUS:
			switch {
			case l.ChMaskCntl >= 0 && l.ChMaskCntl <= 3:
				setBlock(16*l.ChMaskCntl, l.ChMask, 16)
			case l.ChMaskCntl == 4:
				setBlock(64, l.ChMask, 8)
			case l.ChMaskCntl == 5:
				// RP002: bit i controls the bank of eight 125 kHz channels 8i..8i+7
				// together with 500 kHz channel 64+i
				for i := 0; i < 8; i++ {
					for j := 8 * i; j < 8*i+8; j++ {
						if l.ChMask[i] {
							on[j] = true
						} else {
							delete(on, j)
						}
					}
					if l.ChMask[i] {
						on[64+i] = true
					} else {
						delete(on, 64+i)
					}
				}
			case l.ChMaskCntl == 6 || l.ChMaskCntl == 7:
				for i := 0; i < 64; i++ {
					if l.ChMaskCntl == 6 {
						on[i] = true
					} else {
						delete(on, i)
					}
				}
				setBlock(64, l.ChMask, 8)
			default:
				return nil, false
			}
		}
	}
	out := []int{}
	for c := range on {
		out = append(out, c)
	}
	sort.Ints(out)
	return out, true
}

// Blocks counts the 16-channel blocks touched by any of the index sets.
func Blocks(sets ...[]int) int {
	b := map[int]bool{}
	for _, s := range sets {
		for _, c := range s {
			b[c/16] = true
		}
	}
	return len(b)
}

func EqualInts(a, b []int) bool {
	if len(a) != len(b) {
		return false
	}
	for i := range a {
		if a[i] != b[i] {
			return false
		}
	}
	return true
}
