// Package spec holds the independent executable models used as oracles:
// AES-CMAC (RFC 4493), the LoRaWAN 1.0.x / 1.1 MIC blocks, payload keystream,
// key derivations, the MAC-command format table, a channel-plan model and a
// join-procedure device model. Nothing here calls into /repo for a result it
// is supposed to check (library types are only used as data carriers).
package spec

import (
	"crypto/aes"
	"crypto/cipher"
	"encoding/binary"
)

type Key [16]byte

func aesBlock(k Key) cipher.Block {
	b, err := aes.NewCipher(k[:])
	if err != nil {
		panic(err)
	}
	return b
}

// AESEncryptBlock returns AES128_encrypt(k, in) for one 16-byte block.
func AESEncryptBlock(k Key, in []byte) [16]byte {
	var out [16]byte
	aesBlock(k).Encrypt(out[:], in)
	return out
}

// AESDecryptBlock returns AES128_decrypt(k, in) for one 16-byte block.
func AESDecryptBlock(k Key, in []byte) [16]byte {
	var out [16]byte
	aesBlock(k).Decrypt(out[:], in)
	return out
}

func shl1(in [16]byte) [16]byte {
	var out [16]byte
	var carry byte
	for i := 15; i >= 0; i-- {
		out[i] = in[i]<<1 | carry
		carry = in[i] >> 7
	}
	return out
}

// CMAC computes AES-CMAC(k, msg) per RFC 4493.
func CMAC(k Key, msg []byte) [16]byte {
	blk := aesBlock(k)
	var zero, l [16]byte
	blk.Encrypt(l[:], zero[:])
	k1 := shl1(l)
	if l[0]&0x80 != 0 {
		k1[15] ^= 0x87
	}
	k2 := shl1(k1)
	if k1[0]&0x80 != 0 {
		k2[15] ^= 0x87
	}
	n := (len(msg) + 15) / 16
	complete := n > 0 && len(msg)%16 == 0
	if n == 0 {
		n = 1
	}
	var last [16]byte
	if complete {
		copy(last[:], msg[(n-1)*16:])
		for i := range last {
			last[i] ^= k1[i]
		}
	} else {
		rem := msg[(n-1)*16:]
		copy(last[:], rem)
		last[len(rem)] = 0x80
		for i := range last {
			last[i] ^= k2[i]
		}
	}
	var x, y [16]byte
	for i := 0; i < n-1; i++ {
		for j := 0; j < 16; j++ {
			y[j] = x[j] ^ msg[i*16+j]
		}
		blk.Encrypt(x[:], y[:])
	}
	for j := 0; j < 16; j++ {
		y[j] = x[j] ^ last[j]
	}
	blk.Encrypt(x[:], y[:])
	return x
}

// DataMICParams are the receiver-side (or sender-side) parameters that enter
// the MIC of a data frame besides the bytes.
type DataMICParams struct {
	V11      bool   // LoRaWAN 1.1 (else 1.0.x)
	FCnt32   uint32 // full 32-bit frame counter
	ConfFCnt uint32 // 1.1: counter of the confirmed frame being acknowledged
	TxDR     uint8  // 1.1 uplink
	TxCh     uint8  // 1.1 uplink
	FNwkSInt Key    // 1.0: NwkSKey
	SNwkSInt Key    // 1.1
}

// DataMIC computes the specification's MIC for the serialised frame
// phy[0:len-4] (MHDR|FHDR|FPort|FRMPayload) in the given direction. The
// DevAddr and the ACK bit are taken from the bytes themselves, as a receiver
// has to.
func DataMIC(msg []byte, uplink bool, p DataMICParams) [4]byte {
	var mic [4]byte
	if len(msg) < 8 {
		return mic
	}
	ack := msg[5]&0x20 != 0
	conf := uint16(0)
	if p.V11 && ack {
		conf = uint16(p.ConfFCnt)
	}
	b0 := make([]byte, 16, 16+len(msg))
	b0[0] = 0x49
	if !uplink {
		b0[5] = 1
		binary.LittleEndian.PutUint16(b0[1:3], conf) // downlink B0 carries ConfFCnt (1.1, ACK)
	}
	copy(b0[6:10], msg[1:5])
	binary.LittleEndian.PutUint32(b0[10:14], p.FCnt32)
	b0[15] = byte(len(msg))
	if !uplink {
		// downlink: SNwkSIntKey (1.0.x sessions hold NwkSKey in every key slot)
		c := CMAC(p.SNwkSInt, append(b0, msg...))
		copy(mic[:], c[:4])
		return mic
	}
	cF := CMAC(p.FNwkSInt, append(b0, msg...))
	if !p.V11 {
		copy(mic[:], cF[:4])
		return mic
	}
	b1 := make([]byte, 16, 16+len(msg))
	b1[0] = 0x49
	binary.LittleEndian.PutUint16(b1[1:3], conf)
	b1[3] = p.TxDR
	b1[4] = p.TxCh
	copy(b1[6:10], msg[1:5])
	binary.LittleEndian.PutUint32(b1[10:14], p.FCnt32)
	b1[15] = byte(len(msg))
	cS := CMAC(p.SNwkSInt, append(b1, msg...))
	mic[0], mic[1], mic[2], mic[3] = cS[0], cS[1], cF[0], cF[1]
	return mic
}

// FRMKeystreamXOR XORs data with the LoRaWAN payload keystream
// S_i = AES(k, A_i), A_i = 0x01 | 4x00 | dir | DevAddr(LE) | FCnt32(LE) | 0x00 | i.
// devAddrLE is the address as it appears on the wire.
func FRMKeystreamXOR(k Key, uplink bool, devAddrLE [4]byte, fcnt uint32, data []byte) []byte {
	out := make([]byte, len(data))
	a := make([]byte, 16)
	a[0] = 0x01
	if !uplink {
		a[5] = 1
	}
	copy(a[6:10], devAddrLE[:])
	binary.LittleEndian.PutUint32(a[10:14], fcnt)
	for i := 0; i*16 < len(data); i++ {
		a[15] = byte(i + 1)
		s := AESEncryptBlock(k, a)
		for j := 0; j < 16 && i*16+j < len(data); j++ {
			out[i*16+j] = data[i*16+j] ^ s[j]
		}
	}
	return out
}

// FOptsXOR applies the 1.1 FOpts encryption: A = 0x01 | 3x00 | (0x01 NFCntDown/FCntUp | 0x02 AFCntDown) | dir | DevAddr | FCnt | 0x00 | 0x01.
func FOptsXOR(k Key, aFCntDown, uplink bool, devAddrLE [4]byte, fcnt uint32, data []byte) []byte {
	a := make([]byte, 16)
	a[0] = 0x01
	if aFCntDown {
		a[4] = 0x02
	} else {
		a[4] = 0x01
	}
	if !uplink {
		a[5] = 1
	}
	copy(a[6:10], devAddrLE[:])
	binary.LittleEndian.PutUint32(a[10:14], fcnt)
	a[15] = 0x01
	s := AESEncryptBlock(k, a)
	out := make([]byte, len(data))
	for i := range data {
		out[i] = data[i] ^ s[i%16]
	}
	return out
}

// Reverse returns b reversed (EUIs, NetID and DevAddr are little-endian on
// the wire and big-endian in text).
func Reverse(b []byte) []byte {
	out := make([]byte, len(b))
	for i := range b {
		out[len(b)-1-i] = b[i]
	}
	return out
}

// JoinRequestMIC = aes128_cmac(NwkKey, MHDR | JoinEUI | DevEUI | DevNonce)[0..3]
// over the serialised bytes (without MIC).
func JoinRequestMIC(k Key, msg []byte) [4]byte {
	c := CMAC(k, msg)
	var m [4]byte
	copy(m[:], c[:4])
	return m
}

// SessionKey10 derives a 1.0-style key: aes128_encrypt(key, typ | JoinNonce | NetID | DevNonce | pad16).
func SessionKey10(root Key, typ byte, joinNonce uint32, netIDLE [3]byte, devNonce uint16) Key {
	b := make([]byte, 16)
	b[0] = typ
	b[1], b[2], b[3] = byte(joinNonce), byte(joinNonce>>8), byte(joinNonce>>16)
	copy(b[4:7], netIDLE[:])
	binary.LittleEndian.PutUint16(b[7:9], devNonce)
	return Key(AESEncryptBlock(root, b))
}

// SessionKey11 derives a 1.1-style key: aes128_encrypt(key, typ | JoinNonce | JoinEUI | DevNonce | pad16).
func SessionKey11(root Key, typ byte, joinNonce uint32, joinEUILE [8]byte, devNonce uint16) Key {
	b := make([]byte, 16)
	b[0] = typ
	b[1], b[2], b[3] = byte(joinNonce), byte(joinNonce>>8), byte(joinNonce>>16)
	copy(b[4:12], joinEUILE[:])
	binary.LittleEndian.PutUint16(b[12:14], devNonce)
	return Key(AESEncryptBlock(root, b))
}

// JSKey derives JSIntKey (typ 0x06) / JSEncKey (typ 0x05) = aes128_encrypt(NwkKey, typ | DevEUI | pad16).
func JSKey(nwkKey Key, typ byte, devEUILE [8]byte) Key {
	b := make([]byte, 16)
	b[0] = typ
	copy(b[1:9], devEUILE[:])
	return Key(AESEncryptBlock(nwkKey, b))
}

func newAES(k []byte) (cipher.Block, error) { return aes.NewCipher(k) }
