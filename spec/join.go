package spec

import (
	"encoding/binary"
	"errors"
)

// Device is the harness's model of an end-device's join procedure, written
// from LoRaWAN 1.0.x §6.2 and LoRaWAN 1.1 §6.2 (it shares no code with
// /repo). EUIs are kept in text (big-endian) order.
type Device struct {
	DevEUI  [8]byte
	JoinEUI [8]byte
	NwkKey  Key // LoRaWAN 1.0.x: the AppKey
	AppKey  Key
}

func le8(b [8]byte) [8]byte {
	var o [8]byte
	for i := range b {
		o[7-i] = b[i]
	}
	return o
}

// JoinRequest builds MHDR | JoinEUI | DevEUI | DevNonce | MIC.
func (d *Device) JoinRequest(devNonce uint16) []byte {
	msg := []byte{0x00}
	j, e := le8(d.JoinEUI), le8(d.DevEUI)
	msg = append(msg, j[:]...)
	msg = append(msg, e[:]...)
	msg = append(msg, byte(devNonce), byte(devNonce>>8))
	mic := JoinRequestMIC(d.NwkKey, msg)
	return append(msg, mic[:]...)
}

// RejoinRequest builds a rejoin-request of type 0, 1 or 2. The MIC key is
// SNwkSIntKey for types 0/2 and JSIntKey for type 1.
func (d *Device) RejoinRequest(typ byte, netIDLE [3]byte, rjCount uint16, sNwkSIntKey Key) []byte {
	msg := []byte{0xc0, typ}
	e := le8(d.DevEUI)
	if typ == 1 {
		j := le8(d.JoinEUI)
		msg = append(msg, j[:]...)
		msg = append(msg, e[:]...)
	} else {
		msg = append(msg, netIDLE[:]...)
		msg = append(msg, e[:]...)
	}
	msg = append(msg, byte(rjCount), byte(rjCount>>8))
	k := sNwkSIntKey
	if typ == 1 {
		k = JSKey(d.NwkKey, 0x06, e)
	}
	mic := JoinRequestMIC(k, msg)
	return append(msg, mic[:]...)
}

// JoinAccept is what a device reads out of a join-accept.
type JoinAccept struct {
	JoinNonce  uint32
	NetIDLE    [3]byte
	DevAddrLE  [4]byte
	DLSettings byte
	RxDelay    byte
	CFList     []byte // nil or 16 bytes
	OptNeg     bool
	MICOK      bool
}

// ReqType values of the 1.1 join-accept MIC.
const (
	ReqJoin    = 0xff
	ReqRejoin0 = 0x00
	ReqRejoin1 = 0x01
	ReqRejoin2 = 0x02
)

// ProcessJoinAccept decrypts and verifies a join-accept as the device that
// sent the (re)join-request would: the accept is encrypted with aes128_decrypt
// (NwkKey for a join-request, JSEncKey for a rejoin-request), so the device
// applies aes128_encrypt; the MIC is the 1.0 form, or with OptNeg the 1.1 form
// over JoinReqType | JoinEUI | DevNonce | MHDR | payload with JSIntKey.
func (d *Device) ProcessJoinAccept(phy []byte, reqType byte, devNonceOrRJCount uint16) (JoinAccept, error) {
	var ja JoinAccept
	if len(phy) != 17 && len(phy) != 33 {
		return ja, errors.New("join-accept must be 17 or 33 bytes")
	}
	if phy[0]>>5 != 1 {
		return ja, errors.New("MHDR is not join-accept")
	}
	e := le8(d.DevEUI)
	key := d.NwkKey
	if reqType != ReqJoin {
		key = JSKey(d.NwkKey, 0x05, e) // JSEncKey
	}
	pt := make([]byte, 0, len(phy)-1)
	for i := 1; i < len(phy); i += 16 {
		b := AESEncryptBlock(key, phy[i:i+16])
		pt = append(pt, b[:]...)
	}
	body := pt[:len(pt)-4]
	mic := pt[len(pt)-4:]
	ja.JoinNonce = uint32(body[0]) | uint32(body[1])<<8 | uint32(body[2])<<16
	copy(ja.NetIDLE[:], body[3:6])
	copy(ja.DevAddrLE[:], body[6:10])
	ja.DLSettings = body[10]
	ja.RxDelay = body[11]
	if len(body) == 28 {
		ja.CFList = append([]byte(nil), body[12:28]...)
	}
	ja.OptNeg = ja.DLSettings&0x80 != 0
	var want [16]byte
	if ja.OptNeg {
		j := le8(d.JoinEUI)
		msg := []byte{reqType}
		msg = append(msg, j[:]...)
		msg = append(msg, byte(devNonceOrRJCount), byte(devNonceOrRJCount>>8))
		msg = append(msg, phy[0])
		msg = append(msg, body...)
		want = CMAC(JSKey(d.NwkKey, 0x06, e), msg)
	} else {
		msg := append([]byte{phy[0]}, body...)
		want = CMAC(d.NwkKey, msg)
	}
	ja.MICOK = mic[0] == want[0] && mic[1] == want[1] && mic[2] == want[2] && mic[3] == want[3]
	return ja, nil
}

// SessionKeys a device derives after a join-accept.
type SessionKeys struct {
	FNwkSInt Key // 1.0: NwkSKey
	SNwkSInt Key
	NwkSEnc  Key
	AppS     Key
}

// DeriveKeys follows OptNeg: 1.1 derivation (JoinEUI based; AppSKey from
// AppKey) or 1.0 derivation (NetID based; both keys from NwkKey = the 1.0
// AppKey).
func (d *Device) DeriveKeys(ja JoinAccept, devNonceOrRJCount uint16) SessionKeys {
	var k SessionKeys
	if ja.OptNeg {
		j := le8(d.JoinEUI)
		k.FNwkSInt = SessionKey11(d.NwkKey, 0x01, ja.JoinNonce, j, devNonceOrRJCount)
		k.AppS = SessionKey11(d.AppKey, 0x02, ja.JoinNonce, j, devNonceOrRJCount)
		k.SNwkSInt = SessionKey11(d.NwkKey, 0x03, ja.JoinNonce, j, devNonceOrRJCount)
		k.NwkSEnc = SessionKey11(d.NwkKey, 0x04, ja.JoinNonce, j, devNonceOrRJCount)
		return k
	}
	k.FNwkSInt = SessionKey10(d.NwkKey, 0x01, ja.JoinNonce, ja.NetIDLE, devNonceOrRJCount)
	k.AppS = SessionKey10(d.NwkKey, 0x02, ja.JoinNonce, ja.NetIDLE, devNonceOrRJCount)
	k.SNwkSInt = k.FNwkSInt
	k.NwkSEnc = k.FNwkSInt
	return k
}

// KeyUnwrap is RFC 3394 AES key unwrap (default IV), own implementation.
func KeyUnwrap(kek []byte, wrapped []byte) ([]byte, error) {
	if len(wrapped)%8 != 0 || len(wrapped) < 24 {
		return nil, errors.New("wrapped key has a bad length")
	}
	blk, err := newAES(kek)
	if err != nil {
		return nil, err
	}
	n := len(wrapped)/8 - 1
	a := make([]byte, 8)
	copy(a, wrapped[:8])
	r := make([][]byte, n)
	for i := range r {
		r[i] = append([]byte(nil), wrapped[8*(i+1):8*(i+2)]...)
	}
	buf := make([]byte, 16)
	for j := 5; j >= 0; j-- {
		for i := n - 1; i >= 0; i-- {
			t := uint64(n*j + i + 1)
			var tb [8]byte
			binary.BigEndian.PutUint64(tb[:], t)
			for k := 0; k < 8; k++ {
				buf[k] = a[k] ^ tb[k]
			}
			copy(buf[8:], r[i])
			blk.Decrypt(buf, buf)
			copy(a, buf[:8])
			copy(r[i], buf[8:])
		}
	}
	for _, x := range a {
		if x != 0xa6 {
			return nil, errors.New("key unwrap integrity check failed")
		}
	}
	var out []byte
	for i := range r {
		out = append(out, r[i]...)
	}
	return out, nil
}
