package spec

// Bit layouts of the MAC-command payloads, written from the LoRaWAN 1.0.4 /
// 1.1 MAC-command chapters (and the 2.4 GHz frequency-encoding note for
// NewChannelReq). A payload of n<=5 bytes is read as a little-endian integer;
// a field is Width bits starting at bit Off of that integer.

type bitField struct {
	Idx   int // index into Cmd.F
	Off   uint
	Width uint
	Kind  int
}

const (
	kPlain   = iota
	kFreq100 // 24-bit value in units of 100 Hz
	kFreqNC  // NewChannelReq: 100 Hz units, 200 Hz units for raw values >= 12 000 000 (2.4 GHz)
	kSigned6 // two's complement 6-bit
)

var layouts = map[int][]bitField{
	key(false, 0x01): {{0, 0, 4, kPlain}},
	key(false, 0x02): {{0, 0, 8, kPlain}, {1, 8, 8, kPlain}},
	key(false, 0x03): {{0, 4, 4, kPlain}, {1, 0, 4, kPlain}, {2, 8, 16, kPlain}, {3, 28, 3, kPlain}, {4, 24, 4, kPlain}},
	key(false, 0x04): {{0, 0, 4, kPlain}},
	key(false, 0x05): {{0, 4, 3, kPlain}, {1, 0, 4, kPlain}, {2, 8, 24, kFreq100}, {3, 7, 1, kPlain}},
	key(false, 0x07): {{0, 0, 8, kPlain}, {1, 8, 24, kFreqNC}, {2, 36, 4, kPlain}, {3, 32, 4, kPlain}},
	key(false, 0x08): {{0, 0, 4, kPlain}},
	key(false, 0x09): {{0, 5, 1, kPlain}, {1, 4, 1, kPlain}, {2, 0, 4, kPlain}},
	key(false, 0x0a): {{0, 0, 8, kPlain}, {1, 8, 24, kFreq100}},
	key(false, 0x0b): {{0, 0, 4, kPlain}},
	key(false, 0x0c): {{0, 4, 4, kPlain}, {1, 0, 4, kPlain}},
	key(false, 0x0d): {{0, 0, 32, kPlain}, {1, 32, 8, kPlain}},
	key(false, 0x0e): {{0, 11, 3, kPlain}, {1, 8, 3, kPlain}, {2, 4, 3, kPlain}, {3, 0, 4, kPlain}},
	key(false, 0x0f): {{0, 4, 4, kPlain}, {1, 0, 4, kPlain}},
	key(false, 0x11): {{0, 0, 24, kFreq100}, {1, 24, 4, kPlain}},
	key(false, 0x13): {{0, 0, 24, kFreq100}},
	key(false, 0x20): {{0, 0, 8, kPlain}},

	key(true, 0x01): {{0, 0, 4, kPlain}},
	key(true, 0x03): {{0, 0, 1, kPlain}, {1, 1, 1, kPlain}, {2, 2, 1, kPlain}},
	key(true, 0x05): {{0, 0, 1, kPlain}, {1, 1, 1, kPlain}, {2, 2, 1, kPlain}},
	key(true, 0x06): {{0, 0, 8, kPlain}, {1, 8, 6, kSigned6}},
	key(true, 0x07): {{0, 0, 1, kPlain}, {1, 1, 1, kPlain}},
	key(true, 0x0a): {{0, 1, 1, kPlain}, {1, 0, 1, kPlain}},
	key(true, 0x0b): {{0, 0, 4, kPlain}},
	key(true, 0x0f): {{0, 0, 1, kPlain}},
	key(true, 0x10): {{0, 0, 3, kPlain}},
	key(true, 0x11): {{0, 1, 1, kPlain}, {1, 0, 1, kPlain}},
	key(true, 0x13): {{0, 0, 1, kPlain}},
	key(true, 0x20): {{0, 0, 8, kPlain}},
}

// EncodeSpec encodes the payload of a spec-valid standard command.
func EncodeSpec(c Cmd) []byte {
	d := Desc(c.Up, c.CID)
	if d == nil || d.Size == 0 {
		return nil
	}
	var v uint64
	for _, bf := range layouts[key(c.Up, c.CID)] {
		x := c.F[bf.Idx]
		var raw uint64
		switch bf.Kind {
		case kFreq100:
			raw = uint64(x / 100)
		case kFreqNC:
			if x >= 2400000000 {
				raw = uint64(x / 200)
			} else {
				raw = uint64(x / 100)
			}
		case kSigned6:
			raw = uint64(x) & 0x3f
		default:
			raw = uint64(x)
		}
		raw &= (1 << bf.Width) - 1
		v |= raw << bf.Off
	}
	out := make([]byte, d.Size)
	for i := range out {
		out[i] = byte(v >> (8 * uint(i)))
	}
	return out
}

// DecodeSpec decodes payload bytes of a standard command into field values
// (reserved bits ignored).
func DecodeSpec(up bool, cid byte, payload []byte) ([]int64, bool) {
	d := Desc(up, cid)
	if d == nil || d.Size != len(payload) {
		return nil, false
	}
	if d.Size == 0 {
		return nil, true
	}
	var v uint64
	for i, b := range payload {
		v |= uint64(b) << (8 * uint(i))
	}
	f := make([]int64, len(d.Fields))
	for _, bf := range layouts[key(up, cid)] {
		raw := (v >> bf.Off) & ((1 << bf.Width) - 1)
		switch bf.Kind {
		case kFreq100:
			f[bf.Idx] = int64(raw) * 100
		case kFreqNC:
			if raw >= 12000000 {
				f[bf.Idx] = int64(raw) * 200
			} else {
				f[bf.Idx] = int64(raw) * 100
			}
		case kSigned6:
			x := int64(raw)
			if x > 31 {
				x -= 64
			}
			f[bf.Idx] = x
		default:
			f[bf.Idx] = int64(raw)
		}
	}
	return f, true
}

// EncodeStreamSpec serialises a command list with the harness's own encoder.
func EncodeStreamSpec(cs []Cmd) []byte {
	var out []byte
	for _, c := range cs {
		out = append(out, c.CID)
		if c.CID >= 0x80 {
			out = append(out, c.Raw...)
		} else {
			out = append(out, EncodeSpec(c)...)
		}
	}
	return out
}
