// Command instrument rewrites a scratch copy of brocaar/lorawan so that the
// simulator can preempt it: a simrt.Yield(<site>) before every statement of
// every function body, X.Lock()/X.RLock() turned into try-lock loops that the
// scheduler controls, and a reset hook for the process-global MAC registry.
// It never touches /repo itself (DESIGN.md §3.3).
package main

import (
	"bytes"
	"encoding/json"
	"flag"
	"fmt"
	"go/ast"
	"go/parser"
	"go/printer"
	"go/token"
	"os"
	"path/filepath"
	"sort"
	"strconv"
	"strings"
)

type site struct {
	ID   int    `json:"id"`
	File string `json:"file"`
	Line int    `json:"line"`
	Col  int    `json:"col"`
	Func string `json:"func"`
	Kind string `json:"kind"` // stmt | lock
	Pkg  string `json:"pkg"`
}

var (
	sites   []site
	rootDir string
)

func main() {
	root := flag.String("root", "", "root of the scratch copy")
	pkgs := flag.String("pkgs", "", "comma separated package dirs relative to root ('.' for the root package); empty = all")
	out := flag.String("sites", "", "site table output (json)")
	flag.Parse()
	if *root == "" {
		fmt.Fprintln(os.Stderr, "instrument: -root required")
		os.Exit(2)
	}
	rootDir = *root
	var dirs []string
	if *pkgs == "" {
		filepath.Walk(rootDir, func(p string, fi os.FileInfo, err error) error {
			if err != nil {
				return nil
			}
			if fi.IsDir() {
				if strings.HasPrefix(fi.Name(), ".") && p != rootDir {
					return filepath.SkipDir
				}
				if fi.Name() == "vendor" || fi.Name() == "testdata" {
					return filepath.SkipDir
				}
				dirs = append(dirs, p)
			}
			return nil
		})
	} else {
		for _, d := range strings.Split(*pkgs, ",") {
			dirs = append(dirs, filepath.Join(rootDir, d))
		}
	}
	sort.Strings(dirs)
	for _, d := range dirs {
		if err := doDir(d); err != nil {
			fmt.Fprintln(os.Stderr, "instrument:", err)
			os.Exit(2)
		}
	}
	for _, d := range dirs {
		if err := writeState(d); err != nil {
			fmt.Fprintln(os.Stderr, "instrument:", err)
			os.Exit(2)
		}
	}
	if err := writeReset(); err != nil {
		fmt.Fprintln(os.Stderr, "instrument:", err)
		os.Exit(2)
	}
	if *out != "" {
		b, _ := json.Marshal(sites)
		if err := os.WriteFile(*out, b, 0o644); err != nil {
			fmt.Fprintln(os.Stderr, "instrument:", err)
			os.Exit(2)
		}
	}
	fmt.Printf("instrumented %d sites in %d dirs\n", len(sites), len(dirs))
}

func doDir(dir string) error {
	ents, err := os.ReadDir(dir)
	if err != nil {
		return err
	}
	for _, e := range ents {
		n := e.Name()
		if e.IsDir() || !strings.HasSuffix(n, ".go") || strings.HasSuffix(n, "_test.go") || strings.HasPrefix(n, "zz_verif_") {
			continue
		}
		if err := doFile(filepath.Join(dir, n)); err != nil {
			return fmt.Errorf("%s: %v", n, err)
		}
	}
	return nil
}

type rewriter struct {
	fset    *token.FileSet
	rel     string
	pkg     string
	fn      string
	n       int
	skipBlk map[*ast.BlockStmt]bool
}

func (r *rewriter) newSite(pos token.Pos, kind string) int {
	p := r.fset.Position(pos)
	id := len(sites)
	sites = append(sites, site{ID: id, File: r.rel, Line: p.Line, Col: p.Column, Func: r.fn, Kind: kind, Pkg: r.pkg})
	r.n++
	return id
}

func yieldStmt(id int) ast.Stmt {
	return &ast.ExprStmt{X: &ast.CallExpr{
		Fun:  &ast.SelectorExpr{X: ast.NewIdent("simrt"), Sel: ast.NewIdent("Yield")},
		Args: []ast.Expr{&ast.BasicLit{Kind: token.INT, Value: strconv.Itoa(id)}},
	}}
}

// lockCall recognises `X.Lock()` / `X.RLock()` used as a statement.
func lockCall(s ast.Stmt) (recv ast.Expr, try string, ok bool) {
	es, isES := s.(*ast.ExprStmt)
	if !isES {
		return nil, "", false
	}
	ce, isCE := es.X.(*ast.CallExpr)
	if !isCE || len(ce.Args) != 0 {
		return nil, "", false
	}
	se, isSE := ce.Fun.(*ast.SelectorExpr)
	if !isSE {
		return nil, "", false
	}
	switch se.Sel.Name {
	case "Lock":
		return se.X, "TryLock", true
	case "RLock":
		return se.X, "TryRLock", true
	}
	return nil, "", false
}

func (r *rewriter) list(in []ast.Stmt) []ast.Stmt {
	out := make([]ast.Stmt, 0, 2*len(in)+1)
	afterLock := false
	for _, s := range in {
		// no preemption point between `X.Lock()` and the `defer X.Unlock()`
		// that follows it: a task unwound there (step cap) would leave the
		// lock held for ever
		if _, isDefer := s.(*ast.DeferStmt); isDefer && afterLock {
			out = append(out, s)
			afterLock = false
			continue
		}
		afterLock = false
		if recv, try, ok := lockCall(s); ok {
			afterLock = true
			id := r.newSite(s.Pos(), "lock")
			out = append(out, &ast.ExprStmt{X: &ast.CallExpr{
				Fun: &ast.SelectorExpr{X: ast.NewIdent("simrt"), Sel: ast.NewIdent("Acquire")},
				Args: []ast.Expr{
					&ast.SelectorExpr{X: recv, Sel: ast.NewIdent(try)},
					&ast.BasicLit{Kind: token.INT, Value: strconv.Itoa(id)},
				},
			}})
			continue
		}
		id := r.newSite(s.Pos(), "stmt")
		if gs, isGo := s.(*ast.GoStmt); isGo {
			out = append(out, yieldStmt(id), goRewrite(gs))
			continue
		}
		out = append(out, yieldStmt(id), s)
	}
	return out
}

// goRewrite turns `go f(a, b)` into a block that evaluates the function
// value and the arguments where the go statement stood (as the language
// does) and hands the call to simrt.Go, which starts the goroutine as a task
// of the simulation (a plain `go` outside one).
func goRewrite(gs *ast.GoStmt) ast.Stmt {
	call := gs.Call
	goCall := func(fn ast.Expr) ast.Stmt {
		return &ast.ExprStmt{X: &ast.CallExpr{
			Fun:  &ast.SelectorExpr{X: ast.NewIdent("simrt"), Sel: ast.NewIdent("Go")},
			Args: []ast.Expr{fn},
		}}
	}
	if fl, ok := call.Fun.(*ast.FuncLit); ok && len(call.Args) == 0 && fl.Type.Results == nil {
		return goCall(fl)
	}
	var stmts []ast.Stmt
	define := func(name string, v ast.Expr) ast.Expr {
		stmts = append(stmts, &ast.AssignStmt{Lhs: []ast.Expr{ast.NewIdent(name)}, Tok: token.DEFINE, Rhs: []ast.Expr{v}})
		return ast.NewIdent(name)
	}
	fn := define("verifGoF", call.Fun)
	var args []ast.Expr
	for i, a := range call.Args {
		inline := false
		switch x := a.(type) {
		case *ast.BasicLit:
			inline = true
		case *ast.Ident:
			inline = x.Name == "nil" || x.Name == "true" || x.Name == "false"
		}
		if inline {
			args = append(args, a)
		} else {
			args = append(args, define(fmt.Sprintf("verifGoA%d", i), a))
		}
	}
	inner := &ast.CallExpr{Fun: fn, Args: args, Ellipsis: call.Ellipsis}
	if call.Ellipsis.IsValid() {
		inner.Ellipsis = 1
	}
	lit := &ast.FuncLit{
		Type: &ast.FuncType{Params: &ast.FieldList{}},
		Body: &ast.BlockStmt{List: []ast.Stmt{&ast.ExprStmt{X: inner}}},
	}
	stmts = append(stmts, goCall(lit))
	return &ast.BlockStmt{List: stmts}
}

func (r *rewriter) Visit(n ast.Node) ast.Visitor {
	switch x := n.(type) {
	case *ast.FuncDecl:
		name := x.Name.Name
		if x.Recv != nil && len(x.Recv.List) == 1 {
			var b bytes.Buffer
			printer.Fprint(&b, token.NewFileSet(), x.Recv.List[0].Type)
			name = "(" + b.String() + ")." + name
		}
		r.fn = name
	case *ast.SwitchStmt:
		r.skipBlk[x.Body] = true
	case *ast.TypeSwitchStmt:
		r.skipBlk[x.Body] = true
	case *ast.SelectStmt:
		r.skipBlk[x.Body] = true
	case *ast.BlockStmt:
		if !r.skipBlk[x] {
			x.List = r.list(x.List)
		}
	case *ast.CaseClause:
		x.Body = r.list(x.Body)
	case *ast.CommClause:
		x.Body = r.list(x.Body)
	}
	return r
}

func doFile(path string) error {
	fset := token.NewFileSet()
	f, err := parser.ParseFile(fset, path, nil, parser.ParseComments)
	if err != nil {
		return err
	}
	rel, _ := filepath.Rel(rootDir, path)
	pkgRel, _ := filepath.Rel(rootDir, filepath.Dir(path))
	r := &rewriter{fset: fset, rel: rel, pkg: pkgRel, skipBlk: map[*ast.BlockStmt]bool{}}
	// only function bodies and function literals: walk declarations
	for _, d := range f.Decls {
		switch x := d.(type) {
		case *ast.FuncDecl:
			if x.Body != nil {
				ast.Walk(r, x)
			}
		case *ast.GenDecl:
			// function literals in package-level initialisers (e.g. the
			// constructors stored in the MAC registry) run at call time
			r.fn = "<pkg-init-literal>"
			ast.Inspect(x, func(n ast.Node) bool {
				if fl, ok := n.(*ast.FuncLit); ok {
					ast.Walk(r, fl.Body)
					return false
				}
				return true
			})
		}
	}
	// clock seam: time.Now & co. -> verif/simrt/simtime (see that package)
	retimed := retime(f)
	// logrus -> stateless stub (see verif/stublog)
	relogged := retimed
	for _, im := range f.Imports {
		if im.Path.Value == `"github.com/sirupsen/logrus"` {
			im.Path.Value = `"verif/stublog"`
			if im.Name == nil {
				im.Name = ast.NewIdent("logrus")
			}
			relogged = true
		}
	}
	if r.n == 0 && !relogged {
		return nil
	}
	if r.n == 0 {
		addUseGuards(f)
		var buf bytes.Buffer
		cfg := printer.Config{Mode: printer.UseSpaces | printer.TabIndent, Tabwidth: 8}
		if err := cfg.Fprint(&buf, fset, f); err != nil {
			return err
		}
		return os.WriteFile(path, buf.Bytes(), 0o644)
	}
	// add the import as the first declaration
	imp := &ast.GenDecl{Tok: token.IMPORT, Specs: []ast.Spec{
		&ast.ImportSpec{Name: ast.NewIdent("simrt"), Path: &ast.BasicLit{Kind: token.STRING, Value: `"verif/simrt"`}},
	}}
	f.Decls = append([]ast.Decl{imp}, f.Decls...)
	addUseGuards(f)
	var buf bytes.Buffer
	cfg := printer.Config{Mode: printer.UseSpaces | printer.TabIndent, Tabwidth: 8}
	if err := cfg.Fprint(&buf, fset, f); err != nil {
		return err
	}
	return os.WriteFile(path, buf.Bytes(), 0o644)
}

// timeFuncs are the members of package time that read the clock or create
// timers; contextFuncs the members of package context that do.
var timeFuncs = map[string]bool{"Now": true, "Since": true, "Until": true, "Sleep": true, "After": true, "AfterFunc": true,
	"NewTimer": true, "NewTicker": true, "Tick": true, "Timer": true, "Ticker": true}
var contextFuncs = map[string]bool{"WithTimeout": true, "WithDeadline": true}

var pendingGuards []string

// retime points every use of the clock at verif/simrt/simtime. The imports of
// time / context stay (types like time.Duration are still used); a blank use
// keeps them legal when nothing else refers to them any more.
func retime(f *ast.File) bool {
	names := map[string]map[string]bool{}
	for _, im := range f.Imports {
		var set map[string]bool
		local := ""
		switch im.Path.Value {
		case `"time"`:
			set, local = timeFuncs, "time"
		case `"context"`:
			set, local = contextFuncs, "context"
		default:
			continue
		}
		if im.Name != nil {
			local = im.Name.Name
		}
		if local == "_" || local == "." {
			continue
		}
		names[local] = set
	}
	if len(names) == 0 {
		return false
	}
	changed := false
	ast.Inspect(f, func(n ast.Node) bool {
		se, ok := n.(*ast.SelectorExpr)
		if !ok {
			return true
		}
		id, ok := se.X.(*ast.Ident)
		if !ok || id.Obj != nil {
			return true
		}
		if set, ok := names[id.Name]; ok && set[se.Sel.Name] {
			id.Name = "verifsimtime"
			changed = true
		}
		return true
	})
	if !changed {
		return false
	}
	pendingGuards = nil
	for local, set := range names {
		if set["Now"] {
			pendingGuards = append(pendingGuards, local+".Duration")
		} else {
			pendingGuards = append(pendingGuards, local+".Context")
		}
	}
	sort.Strings(pendingGuards)
	imp := &ast.GenDecl{Tok: token.IMPORT, Specs: []ast.Spec{
		&ast.ImportSpec{Name: ast.NewIdent("verifsimtime"), Path: &ast.BasicLit{Kind: token.STRING, Value: `"verif/simrt/simtime"`}},
	}}
	f.Decls = append([]ast.Decl{imp}, f.Decls...)
	return true
}

// addUseGuards appends `var _ time.Duration` style declarations for the
// imports retime may have left without any other use.
func addUseGuards(f *ast.File) {
	for _, g := range pendingGuards {
		parts := strings.SplitN(g, ".", 2)
		f.Decls = append(f.Decls, &ast.GenDecl{Tok: token.VAR, Specs: []ast.Spec{
			&ast.ValueSpec{Names: []*ast.Ident{ast.NewIdent("_")}, Type: &ast.SelectorExpr{X: ast.NewIdent(parts[0]), Sel: ast.NewIdent(parts[1])}},
		}})
	}
	pendingGuards = nil
}

// writeState generates zz_verif_state.go in a package directory: an init()
// that hands the addresses of all package-level variables to
// verif/simrt/pkgstate, which rewinds them in place between simulated runs.
func writeState(dir string) error {
	ents, err := os.ReadDir(dir)
	if err != nil {
		return err
	}
	fset := token.NewFileSet()
	pkgName := ""
	var names []string
	for _, e := range ents {
		n := e.Name()
		if e.IsDir() || !strings.HasSuffix(n, ".go") || strings.HasSuffix(n, "_test.go") || strings.HasPrefix(n, "zz_verif_") {
			continue
		}
		f, err := parser.ParseFile(fset, filepath.Join(dir, n), nil, 0)
		if err != nil {
			return fmt.Errorf("%s: %v", n, err)
		}
		if f.Name.Name == "main" {
			return nil
		}
		pkgName = f.Name.Name
		for _, d := range f.Decls {
			gd, ok := d.(*ast.GenDecl)
			if !ok || gd.Tok != token.VAR {
				continue
			}
			for _, sp := range gd.Specs {
				vs, ok := sp.(*ast.ValueSpec)
				if !ok {
					continue
				}
				for _, id := range vs.Names {
					if id.Name != "_" {
						names = append(names, id.Name)
					}
				}
			}
		}
	}
	if pkgName == "" || len(names) == 0 {
		return nil
	}
	sort.Strings(names)
	rel, _ := filepath.Rel(rootDir, dir)
	var b bytes.Buffer
	fmt.Fprintf(&b, "package %s\n\n// Generated by /verif/cmd/instrument in a scratch copy; never part of /repo.\n\nimport \"verif/simrt/pkgstate\"\n\nfunc init() {\n\tpkgstate.Register(%q, []pkgstate.Var{\n", pkgName, rel)
	for _, n := range names {
		fmt.Fprintf(&b, "\t\t{Name: %q, Ptr: &%s},\n", n, n)
	}
	fmt.Fprintf(&b, "\t})\n}\n")
	return os.WriteFile(filepath.Join(dir, "zz_verif_state.go"), b.Bytes(), 0o644)
}

// writeReset drops the registry snapshot/restore hook into the root package.
// If the tree no longer has the registry in the shape the hook needs (a change
// replaced the map or the mutex), a no-op hook is written instead and the
// marker file <root>/../fresh_mode tells check.sh to run every seed in its
// own worker process, which needs no reset.
func writeReset() error {
	b, _ := os.ReadFile(filepath.Join(rootDir, "mac_commands.go"))
	src := string(b)
	okShape := strings.Contains(src, "var macPayloadRegistry = map[bool]map[CID]macPayloadInfo{") &&
		strings.Contains(src, "var macPayloadMutex sync.RWMutex")
	if !okShape {
		noop := "package lorawan\n\n// Generated by /verif/cmd/instrument: the registry has an unexpected shape,\n// every seed runs in its own process instead.\nfunc VerifResetRegistry() {}\n"
		if err := os.WriteFile(filepath.Join(rootDir, "zz_verif_reset.go"), []byte(noop), 0o644); err != nil {
			return err
		}
		return os.WriteFile(filepath.Join(rootDir, "..", "fresh_mode"), []byte("1\n"), 0o644)
	}
	code := `package lorawan

// Generated by /verif/cmd/instrument in a scratch copy; never part of /repo.

// (taken in an init function of this file, which the go tool hands to the
// compiler last: after the package's own init functions have run - a registry
// whose entries are completed by an init function is snapshotted complete)
var verifRegistrySnapshot map[bool]map[CID]macPayloadInfo

func init() {
	verifRegistrySnapshot = map[bool]map[CID]macPayloadInfo{}
	for dir, m := range macPayloadRegistry {
		verifRegistrySnapshot[dir] = map[CID]macPayloadInfo{}
		for k, v := range m {
			verifRegistrySnapshot[dir][k] = v
		}
	}
}

// VerifResetRegistry restores the MAC payload registry to its state at
// process start (between simulated runs).
func VerifResetRegistry() {
	macPayloadMutex.Lock()
	defer macPayloadMutex.Unlock()
	for dir, m := range verifRegistrySnapshot {
		n := map[CID]macPayloadInfo{}
		for k, v := range m {
			n[k] = v
		}
		macPayloadRegistry[dir] = n
	}
}
`
	return os.WriteFile(filepath.Join(rootDir, "zz_verif_reset.go"), []byte(code), 0o644)
}
