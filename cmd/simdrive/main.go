// Command simdrive fans simulated runs out to worker processes, collects
// their results and race-detector reports, confirms and minimises violations,
// matches them against the committed known-findings file, writes the evidence
// file and sets the exit code (0 held / 1 VIOLATION / 2 machinery trouble).
package main

import (
	"bufio"
	"bytes"
	"context"
	"encoding/json"
	"flag"
	"fmt"
	"os"
	"os/exec"
	"path/filepath"
	"regexp"
	"runtime"
	"sort"
	"strconv"
	"strings"
	"sync"
	"time"
)

type violation struct {
	Sig string `json:"Sig"`
	Msg string `json:"Msg"`
}

type runResult struct {
	Summary    bool             `json:"summary"`
	Seed       uint64           `json:"seed"`
	Hash       uint64           `json:"hash"`
	Steps      int64            `json:"steps"`
	Switches   int64            `json:"switches"`
	Preempts   int64            `json:"preempts"`
	TapeLen    int              `json:"tape_len"`
	Policy     int              `json:"policy"`
	SimTime    int64            `json:"sim_time"`
	Tasks      int              `json:"tasks"`
	Dead       bool             `json:"dead"`
	Counters   map[string]int64 `json:"counters"`
	Violations []violation      `json:"violations"`
	Note       []string         `json:"note"`
	Trace      []string         `json:"trace"`
	Tape       []uint64         `json:"tape"`
	// summary line
	Aborted  bool     `json:"aborted"`
	Leftover bool     `json:"leftover"`
	Runs     int      `json:"runs"`
	Pairs    []uint32 `json:"pairs"`
	Sites    []int    `json:"sites"`
}

type finding struct {
	Property  string `json:"property"`
	Signature string `json:"signature"`
	Status    string `json:"status"` // known | fixed
	Commit    string `json:"commit,omitempty"`
	What      string `json:"what"`
}

type knownFile struct {
	Findings []finding `json:"findings"`
}

type siteInfo struct {
	ID   int    `json:"id"`
	File string `json:"file"`
	Line int    `json:"line"`
	Func string `json:"func"`
	Pkg  string `json:"pkg"`
}

type found struct {
	sig  string
	msg  string
	seed uint64
	tsan string
	race bool
	// set when the race report could only be reproduced in the context of
	// the worker batch that produced it (TSan state depends on process history)
	batchFrom  uint64
	batchCount int
}

var (
	worker               string
	world                string
	prop                 string
	workers              int
	scale                = 1
	fresh                bool // one worker process per seed (no state carried between runs)
	racesNotJudged       bool
	raceReportsNotJudged int
	goraceEnv            = "halt_on_error=0 atexit_sleep_ms=0 exitcode=0"
)

func main() {
	flag.StringVar(&prop, "prop", "", "property id")
	flag.StringVar(&world, "world", "", "world name")
	tier := flag.String("tier", "quick", "quick|thorough")
	seed := flag.Int64("seed", 1, "VERIF_SEED")
	flag.StringVar(&worker, "worker", "", "path of the simworld binary")
	sitesPath := flag.String("sites", "", "site table written by the instrumenter")
	out := flag.String("out", "", "evidence file")
	knownPath := flag.String("known", "", "known findings file")
	replayDir := flag.String("replays", "", "directory for replay files")
	runs := flag.Int("runs", 1000, "quick: number of runs")
	budget := flag.Int("budget", 900, "thorough: wall budget in seconds")
	flag.IntVar(&workers, "workers", runtime.NumCPU(), "parallel worker processes")
	replay := flag.String("replay", "", "replay one file")
	flag.BoolVar(&fresh, "fresh", false, "run every seed in its own worker process")
	flag.BoolVar(&racesNotJudged, "races-not-judged", false, "race-detector reports are counted, not turned into verdicts (properties whose statement has no concurrency clause)")
	rule := flag.String("rule", "", "evidence: generation rule text")
	assume := flag.String("assume", "", "evidence: assumptions, '|' separated")
	real := flag.String("real", "", "evidence: components running real code, '|' separated")
	stub := flag.String("stub", "", "evidence: stubbed components, '|' separated")
	flag.Parse()
	if workers < 1 {
		workers = 1
	}
	if workers > 16 {
		workers = 16
	}

	if *replay != "" {
		os.Exit(doReplay(*replay))
	}
	if prop == "" || world == "" || worker == "" || *out == "" {
		fmt.Fprintln(os.Stderr, "simdrive: -prop -world -worker -out required")
		os.Exit(2)
	}
	start := time.Now()
	fmt.Printf("simdrive: property=%s world=%s tier=%s VERIF_SEED=%d workers=%d\n", prop, world, *tier, *seed, workers)

	known := loadKnown(*knownPath)
	agg := newAgg()

	base := uint64(*seed) * 1000000
	if *tier != "quick" {
		scale = 3
	}
	if *tier == "quick" {
		// the runs of the quick tier in waves of a tenth each, under a wall
		// budget: a tree on which runs are expensive (library goroutines that
		// block in channels cost a detection round each) gets fewer runs, not a
		// watchdog exit
		quickBudget := 150 * time.Second
		if v := os.Getenv("VERIF_QUICK_BUDGET_S"); v != "" {
			if n, err := strconv.Atoi(v); err == nil && n > 0 {
				quickBudget = time.Duration(n) * time.Second
			}
		}
		total := *runs
		per := (total/10 + workers - 1) / workers
		if per < 10 {
			per = 10
		}
		next := base
		done := 0
		for done < total {
			if rem := total - done; per*workers > rem {
				per = (rem + workers - 1) / workers
			}
			if err := wave(agg, next, per, workers, 300*time.Second); err != nil {
				// (what the other workers found stands; the trouble is reported
				// next to it, or on its own as exit 2)
				fmt.Fprintln(os.Stderr, "simdrive:", err)
				waveTrouble = err.Error()
				break
			}
			next += uint64(per * workers)
			done += per * workers
			if time.Since(start) > quickBudget && done < total {
				fmt.Printf("simdrive: quick tier stopped after %d of %d runs: wall budget of %v used up (runs are expensive on this tree)\n", done, total, quickBudget)
				break
			}
		}
	} else {
		deadline := start.Add(time.Duration(*budget) * time.Second)
		per := 200
		next := base
		for time.Now().Before(deadline) {
			t0 := time.Now()
			if err := wave(agg, next, per, workers, 600*time.Second); err != nil {
				fmt.Fprintln(os.Stderr, "simdrive:", err)
				waveTrouble = err.Error()
				break
			}
			next += uint64(per * workers)
			el := time.Since(t0).Seconds()
			// aim for ~20 s waves
			if el < 10 && per < 20000 {
				per *= 2
			}
			// stop early once there is something to report: confirming and
			// shrinking is worth more than more of the same
			if time.Since(start) > 60*time.Second {
				news := false
				agg.mu.Lock()
				for sig := range agg.found {
					if k := known.match(prop, sig); k == nil || k.Status != "known" {
						news = true
					}
				}
				if len(agg.batchRaces) > 0 && !racesNotJudged {
					news = true
				}
				agg.mu.Unlock()
				if news {
					break
				}
			}
		}
	}

	// ---- race reports: re-attribute each racing seed in a fresh process ----
	if racesNotJudged {
		if n := len(agg.batchRaces); n > 0 {
			fmt.Printf("NOTE: %d race-detector report(s) in this exploration; this property's statement has no concurrency clause, they are counted and not judged\n", n)
			raceReportsNotJudged = n
		}
		agg.batchRaces = nil
	} else {
		resolveRaces(agg)
	}

	// ---- verdicts ----
	exit := 0
	var sigs []string
	for s := range agg.found {
		sigs = append(sigs, s)
	}
	sort.Strings(sigs)
	knownSeen := []string{}
	nViol := 0
	var machinery []string
	if waveTrouble != "" {
		machinery = append(machinery, waveTrouble)
	}
	unconfirmed := 0
	shrinkDeadline := time.Now().Add(240 * time.Second)
	shrunk := 0
	for _, s := range sigs {
		f := agg.found[s]
		if strings.HasPrefix(s, "harness:") {
			msg := fmt.Sprintf("%s seed=%d: %s", s, f.seed, f.msg)
			if f.tsan != "" {
				msg += "\n" + f.tsan
			}
			machinery = append(machinery, msg)
			continue
		}
		if k := known.match(prop, s); k != nil && k.Status == "known" {
			fmt.Printf("KNOWN-FINDING: property=%s %s (%s) first seed=%d\n", prop, s, k.What, f.seed)
			knownSeen = append(knownSeen, s)
			continue
		}
		// confirm in a fresh process, minimise (the first few; time-boxed), write the replay file
		doShrink := shrunk < 6 && time.Now().Before(shrinkDeadline)
		path, ok, err := confirmAndShrink(f, *replayDir, doShrink)
		shrunk++
		if err != nil {
			machinery = append(machinery, fmt.Sprintf("could not confirm %s (seed %d): %v", s, f.seed, err))
			continue
		}
		if !ok {
			machinery = append(machinery, fmt.Sprintf("violation %s of seed %d did not reproduce in a fresh process (non-determinism in the harness)", s, f.seed))
			unconfirmed++
			continue
		}
		nViol++
		fmt.Printf("VIOLATION property=%s replay=%s\n", prop, path)
		fmt.Printf("  signature: %s\n  seed: %d\n  %s\n", s, f.seed, firstLine(f.msg, 600))
		exit = 1
	}
	// machinery trouble (harness-internal race, deadlock in harness code,
	// unconfirmed report): on its own it makes the check exit 2; next to
	// confirmed violations it is reported as a note - a library change that
	// shares memory between callers also makes the harness's own accesses to
	// that memory race, which is a consequence, not a harness bug
	// A report that a fresh process does not repeat means state is carried
	// from run to run inside the worker process that the reset between runs
	// does not know about (for example a package-level cache or registry added
	// to the library). The batch results are then not functions of their seeds:
	// discard them and repeat the exploration with one worker process per seed.
	if !fresh && nViol == 0 && unconfirmed > 0 && *replay == "" {
		fmt.Printf("NOTE: %d report(s) of the batch did not repeat in a fresh process: the tree carries state between runs that the reset does not cover; repeating with one process per seed\n", unconfirmed)
		args := append([]string{}, os.Args[1:]...)
		args = append(args, "-fresh")
		cmd := exec.Command(os.Args[0], args...)
		cmd.Stdout, cmd.Stderr = os.Stdout, os.Stderr
		err := cmd.Run()
		if ee, ok := err.(*exec.ExitError); ok {
			os.Exit(ee.ExitCode())
		} else if err != nil {
			fmt.Fprintln(os.Stderr, "simdrive:", err)
			os.Exit(2)
		}
		os.Exit(0)
	}
	for _, m := range machinery {
		if nViol > 0 {
			fmt.Printf("NOTE (machinery, next to confirmed violations): %s\n", firstLine(m, 400))
		} else {
			fmt.Printf("MACHINERY-ERROR %s\n", m)
			exit = 2
		}
	}

	// ---- evidence ----
	if err := writeEvidence(*out, *tier, *seed, agg, time.Since(start).Seconds(), nViol, knownSeen, *sitesPath, *rule, *assume, *real, *stub); err != nil {
		fmt.Fprintln(os.Stderr, "simdrive: evidence:", err)
		os.Exit(2)
	}
	fmt.Printf("simdrive: %d runs, %d distinct non-trivial traces, %d preemptions, %d interleaving pairs, %.1fs; violations=%d known=%d exit=%d\n",
		agg.runs, len(agg.nontrivHashes), agg.preempts, len(agg.pairs), time.Since(start).Seconds(), nViol, len(knownSeen), exit)
	os.Exit(exit)
}

func firstLine(s string, n int) string {
	if len(s) > n {
		return s[:n] + "…"
	}
	return s
}

// ---- known findings ----

func loadKnown(p string) *knownFile {
	k := &knownFile{}
	if p == "" {
		return k
	}
	b, err := os.ReadFile(p)
	if err != nil {
		return k
	}
	if err := json.Unmarshal(b, k); err != nil {
		fmt.Fprintln(os.Stderr, "simdrive: known findings file unreadable:", err)
		os.Exit(2)
	}
	return k
}

func (k *knownFile) match(prop, sig string) *finding {
	for i := range k.Findings {
		f := &k.Findings[i]
		if f.Property == prop && f.Signature == sig {
			return f
		}
	}
	return nil
}

// ---- aggregation ----

type agg struct {
	mu            sync.Mutex
	runs          int64
	steps         int64
	switches      int64
	preempts      int64
	simTime       int64
	dead          int64
	counters      map[string]int64
	hashes        map[uint64]struct{}
	nontrivHashes map[uint64]struct{}
	pairs         map[uint32]struct{}
	sites         map[int]struct{}
	policies      map[int]int64
	found         map[string]*found
	batchRaces    []found
	samples       []map[string]interface{}
	seedLo        uint64
	seedHi        uint64
	maxTasks      int
}

func newAgg() *agg {
	return &agg{counters: map[string]int64{}, hashes: map[uint64]struct{}{}, nontrivHashes: map[uint64]struct{}{},
		pairs: map[uint32]struct{}{}, sites: map[int]struct{}{}, policies: map[int]int64{}, found: map[string]*found{}}
}

func (a *agg) addFound(f found) {
	if old, ok := a.found[f.sig]; ok {
		if f.seed < old.seed {
			*old = f
		}
		return
	}
	ff := f
	a.found[f.sig] = &ff
}

func (a *agg) addRun(r *runResult) {
	a.mu.Lock()
	defer a.mu.Unlock()
	if r.Summary {
		for _, p := range r.Pairs {
			a.pairs[p] = struct{}{}
		}
		for _, s := range r.Sites {
			a.sites[s] = struct{}{}
		}
		return
	}
	a.runs++
	a.steps += r.Steps
	a.switches += r.Switches
	a.preempts += r.Preempts
	a.simTime += r.SimTime
	a.policies[r.Policy]++
	if r.Tasks > a.maxTasks {
		a.maxTasks = r.Tasks
	}
	if a.seedLo == 0 || r.Seed < a.seedLo {
		a.seedLo = r.Seed
	}
	if r.Seed > a.seedHi {
		a.seedHi = r.Seed
	}
	if r.Dead {
		a.dead++
	}
	for k, v := range r.Counters {
		a.counters[k] += v
	}
	a.hashes[r.Hash] = struct{}{}
	if r.Counters["nontrivial"] > 0 {
		a.nontrivHashes[r.Hash] = struct{}{}
		if len(a.samples) < 3 {
			a.samples = append(a.samples, map[string]interface{}{"seed": r.Seed, "trace_hash": fmt.Sprintf("%016x", r.Hash), "steps": r.Steps, "task_switches": r.Switches,
				"preemptions": r.Preempts, "policy": policyName(r.Policy), "description": r.Note, "counters": r.Counters})
		}
	}
	for _, v := range r.Violations {
		a.addFound(found{sig: v.Sig, msg: v.Msg, seed: r.Seed})
	}
}

func policyName(p int) string {
	switch p {
	case 0:
		return "random-walk"
	case 1:
		return "pct"
	case 2:
		return "run-to-block"
	}
	return "?"
}

// ---- worker processes ----

func workerEnv() []string {
	env := os.Environ()
	out := env[:0:0]
	for _, e := range env {
		if strings.HasPrefix(e, "GORACE=") || strings.HasPrefix(e, "GOMAXPROCS=") {
			continue
		}
		out = append(out, e)
	}
	return append(out, "GORACE="+goraceEnv, "GOMAXPROCS=1", "GODEBUG=asyncpreemptoff=1")
}

// waveTrouble: a worker that did not come back (watchdog) or whose output was
// unreadable ended the exploration early.
var waveTrouble string

func wave(a *agg, from uint64, per, n int, timeout time.Duration) error {
	var wg sync.WaitGroup
	errs := make([]error, n)
	for i := 0; i < n; i++ {
		wg.Add(1)
		go func(i int) {
			defer wg.Done()
			errs[i] = runWorker(a, from+uint64(i*per), per, timeout)
		}(i)
	}
	wg.Wait()
	for _, e := range errs {
		if e != nil {
			return e
		}
	}
	return nil
}

func runWorker(a *agg, from uint64, count int, timeout time.Duration) error {
	if fresh && count > 1 {
		for i := 0; i < count; i++ {
			if err := runWorker(a, from+uint64(i), 1, timeout); err != nil {
				return err
			}
		}
		return nil
	}
	ctx, cancel := context.WithTimeout(context.Background(), timeout)
	defer cancel()
	cmd := exec.CommandContext(ctx, worker, "-world", world, "-scale", strconv.Itoa(scale), "-from", strconv.FormatUint(from, 10), "-count", strconv.Itoa(count))
	cmd.Env = workerEnv()
	var stderr bytes.Buffer
	cmd.Stderr = &stderr
	stdout, err := cmd.StdoutPipe()
	if err != nil {
		return err
	}
	if err := cmd.Start(); err != nil {
		return err
	}
	sc := bufio.NewScanner(stdout)
	sc.Buffer(make([]byte, 1<<20), 1<<28)
	got := 0
	aborted := false
	leftover := false
	var lastSeed uint64
	for sc.Scan() {
		var r runResult
		if err := json.Unmarshal(sc.Bytes(), &r); err != nil {
			return fmt.Errorf("worker output not JSON: %v", err)
		}
		if !r.Summary {
			got++
			lastSeed = r.Seed
		} else if r.Aborted {
			aborted = true
			leftover = r.Leftover
		}
		a.addRun(&r)
	}
	werr := cmd.Wait()
	if ctx.Err() != nil {
		return fmt.Errorf("watchdog: worker for seeds %d..%d timed out after %v (last finished seed %d); stderr tail: %s", from, from+uint64(count)-1, timeout, lastSeed, tail(stderr.String(), 800))
	}
	races := parseRaces(stderr.String())
	a.mu.Lock()
	for _, rc := range races {
		rc.batchFrom, rc.batchCount = from, count
		a.batchRaces = append(a.batchRaces, rc)
	}
	a.mu.Unlock()
	if werr == nil && aborted && leftover && got > 0 && got < count {
		// the worker ended because goroutines of the library were left
		// behind: the remaining seeds run in a new process
		return runWorker(a, from+uint64(got), count-got, timeout)
	}
	if werr != nil || (got != count && !aborted) {
		return fmt.Errorf("worker for seeds %d..%d failed (%v, %d/%d runs); stderr tail: %s", from, from+uint64(count)-1, werr, got, count, tail(stderr.String(), 1500))
	}
	return nil
}

func tail(s string, n int) string {
	if len(s) > n {
		return s[len(s)-n:]
	}
	return s
}

// ---- race report parsing ----

var (
	reRun   = regexp.MustCompile(`^RUN seed=(\d+)`)
	reFrame = regexp.MustCompile(`^  ([^\s].*)\(\)$`)
)

const modPrefix = "github.com/brocaar/lorawan"

func shortFunc(f string) string {
	f = strings.TrimPrefix(f, modPrefix)
	f = strings.TrimPrefix(f, "/")
	f = strings.TrimPrefix(f, ".")
	if i := strings.Index(f, ".func"); i > 0 {
		f = f[:i]
	}
	return f
}

// parseRaces extracts race reports and attributes them to the run whose
// marker precedes them.
func parseRaces(stderr string) []found {
	var out []found
	var seed uint64
	lines := strings.Split(stderr, "\n")
	for i := 0; i < len(lines); i++ {
		if m := reRun.FindStringSubmatch(lines[i]); m != nil {
			seed, _ = strconv.ParseUint(m[1], 10, 64)
			continue
		}
		if !strings.HasPrefix(lines[i], "WARNING: DATA RACE") {
			continue
		}
		// collect the block up to the closing ==================
		j := i + 1
		var block []string
		for ; j < len(lines) && !strings.HasPrefix(lines[j], "=================="); j++ {
			block = append(block, lines[j])
		}
		// the two access stacks are the first two paragraphs
		var stacks [][]string
		var cur []string
		for _, l := range block {
			if strings.TrimSpace(l) == "" {
				if cur != nil {
					stacks = append(stacks, cur)
					cur = nil
				}
				continue
			}
			cur = append(cur, l)
		}
		if cur != nil {
			stacks = append(stacks, cur)
		}
		var fns []string
		for k := 0; k < len(stacks) && k < 2; k++ {
			fn := "harness"
			for _, l := range stacks[k] {
				m := reFrame.FindStringSubmatch(l)
				if m == nil {
					continue
				}
				if strings.HasPrefix(m[1], modPrefix) {
					fn = shortFunc(m[1])
					break
				}
				// the harness marks accesses a caller is entitled to make to
				// memory it owns (its receive buffer, its arena region): if
				// such an access races, the library kept or touched memory
				// that is not its own
				if strings.Contains(m[1], ".ownerWrite") || strings.Contains(m[1], ".ownerRead") || strings.Contains(m[1], ".ownerScribble") {
					fn = "caller-owned-memory"
					break
				}
			}
			fns = append(fns, fn)
		}
		for len(fns) < 2 {
			fns = append(fns, "harness")
		}
		sort.Strings(fns)
		sig := "race:" + fns[0] + "|" + fns[1]
		if fns[0] == "harness" && fns[1] == "harness" {
			sig = "harness:race"
		}
		if fns[0] == "caller-owned-memory" || fns[1] == "caller-owned-memory" {
			other := fns[0]
			if other == "caller-owned-memory" {
				other = fns[1]
			}
			sig = "race:caller-owned-memory|" + other
		}
		text := "WARNING: DATA RACE\n" + strings.Join(block, "\n")
		out = append(out, found{sig: sig, msg: "data race between " + fns[0] + " and " + fns[1], seed: seed, tsan: maskAddrs(text), race: true})
		i = j
	}
	return out
}

var reAddr = regexp.MustCompile(`0x[0-9a-f]{6,}`)
var reGor = regexp.MustCompile(`oroutine \d+`)
var rePlus = regexp.MustCompile(` \+0x[0-9a-f]+`)

func maskAddrs(s string) string {
	s = reAddr.ReplaceAllString(s, "0xADDR")
	s = reGor.ReplaceAllString(s, "oroutine N")
	s = rePlus.ReplaceAllString(s, "")
	return s
}

// resolveRaces re-runs every seed for which a batch worker printed a race
// report alone in a fresh process. Which pair of stacks ThreadSanitizer
// prints for a racy location depends on the history of the process, so the
// fresh process - a pure function of the seed - is the authority; the batch
// report is only the trigger. If the fresh process reports nothing, the
// batch context itself becomes the (deterministic) reproducer.
func resolveRaces(a *agg) {
	bySeed := map[uint64][]found{}
	var seeds []uint64
	for _, rc := range a.batchRaces {
		if _, ok := bySeed[rc.seed]; !ok {
			seeds = append(seeds, rc.seed)
		}
		bySeed[rc.seed] = append(bySeed[rc.seed], rc)
	}
	sort.Slice(seeds, func(i, j int) bool { return seeds[i] < seeds[j] })
	// bound the work: the smallest seeds are enough to name every signature
	if len(seeds) > 64 {
		seeds = seeds[:64]
	}
	type res struct {
		seed  uint64
		races []found
		err   error
	}
	out := make([]res, len(seeds))
	var wg sync.WaitGroup
	sem := make(chan struct{}, workers)
	for i, sd := range seeds {
		wg.Add(1)
		go func(i int, sd uint64) {
			defer wg.Done()
			sem <- struct{}{}
			defer func() { <-sem }()
			_, rcs, err := runTape(tapeFile{World: world, Seed: sd}, false)
			out[i] = res{sd, rcs, err}
		}(i, sd)
	}
	wg.Wait()
	for _, r := range out {
		if r.err != nil {
			a.addFound(found{sig: "harness:race-resolve", msg: r.err.Error(), seed: r.seed})
			continue
		}
		if len(r.races) > 0 {
			for _, rc := range r.races {
				rc.seed = r.seed
				a.addFound(rc)
			}
			continue
		}
		for _, rc := range bySeed[r.seed] {
			a.addFound(rc) // keeps batchFrom/batchCount
		}
	}
}

// ---- confirm / shrink / replay ----

type tapeFile struct {
	Property  string   `json:"property,omitempty"`
	World     string   `json:"world"`
	Seed      uint64   `json:"seed"`
	Tape      []uint64 `json:"tape"`
	Signature string   `json:"signature,omitempty"`
	Message   string   `json:"message,omitempty"`
	TraceHash string   `json:"trace_hash,omitempty"`
	Scale     int      `json:"scale,omitempty"`
	Trace     []string `json:"trace,omitempty"`
	TSan      string   `json:"tsan,omitempty"`
	Note      []string `json:"note,omitempty"`
	Shrink    string   `json:"shrink,omitempty"`
	// batch replays: run seeds BatchFrom.. (BatchCount of them) in one process
	BatchFrom  uint64 `json:"batch_from,omitempty"`
	BatchCount int    `json:"batch_count,omitempty"`
}

// runBatch re-executes a whole worker batch and returns the race reports.
func runBatch(from uint64, count int) ([]found, error) {
	ctx, cancel := context.WithTimeout(context.Background(), 600*time.Second)
	defer cancel()
	cmd := exec.CommandContext(ctx, worker, "-world", world, "-scale", strconv.Itoa(scale), "-from", strconv.FormatUint(from, 10), "-count", strconv.Itoa(count))
	cmd.Env = workerEnv()
	var se bytes.Buffer
	cmd.Stderr = &se
	if err := cmd.Run(); err != nil {
		return nil, fmt.Errorf("batch run failed: %v", err)
	}
	return parseRaces(se.String()), nil
}

func confirmBatch(f *found, dir string) (string, bool, error) {
	rcs, err := runBatch(f.batchFrom, f.batchCount)
	if err != nil {
		return "", false, err
	}
	for _, rc := range rcs {
		if rc.sig == f.sig && rc.seed == f.seed {
			tf := tapeFile{Property: prop, World: world, Seed: f.seed, Scale: scale, Signature: f.sig, Message: rc.msg, TSan: rc.tsan,
				BatchFrom: f.batchFrom, BatchCount: f.batchCount, Shrink: "not minimised: the report depends on the history of the worker process, the whole batch is the reproducer"}
			os.MkdirAll(dir, 0o755)
			path := filepath.Join(dir, fmt.Sprintf("%s-%d-%s.json", prop, f.seed, sanitize(f.sig)))
			b, _ := json.MarshalIndent(tf, "", " ")
			if err := os.WriteFile(path, b, 0o644); err != nil {
				return "", false, err
			}
			return path, true, nil
		}
	}
	return "", false, nil
}

// runTape executes one tape in a fresh worker process and returns the run
// result plus the race reports.
func runTape(tf tapeFile, trace bool) (*runResult, []found, error) {
	if tf.Scale == 0 {
		tf.Scale = scale
	}
	tmp, err := os.CreateTemp("", "verif-tape-*.json")
	if err != nil {
		return nil, nil, err
	}
	defer os.Remove(tmp.Name())
	b, _ := json.Marshal(tf)
	tmp.Write(b)
	tmp.Close()
	ctx, cancel := context.WithTimeout(context.Background(), 60*time.Second)
	defer cancel()
	args := []string{"-world", tf.World, "-tape", tmp.Name(), "-emit-tape"}
	if trace {
		args = append(args, "-trace")
	}
	cmd := exec.CommandContext(ctx, worker, args...)
	cmd.Env = workerEnv()
	var so, se bytes.Buffer
	cmd.Stdout = &so
	cmd.Stderr = &se
	err = cmd.Run()
	if ctx.Err() != nil {
		return nil, nil, fmt.Errorf("watchdog: tape run timed out")
	}
	if err != nil {
		return nil, nil, fmt.Errorf("tape run failed: %v: %s", err, tail(se.String(), 600))
	}
	var r runResult
	line := bytes.TrimSpace(so.Bytes())
	if i := bytes.IndexByte(line, '\n'); i >= 0 {
		line = line[:i]
	}
	if err := json.Unmarshal(line, &r); err != nil {
		return nil, nil, fmt.Errorf("tape run output: %v", err)
	}
	return &r, parseRaces(se.String()), nil
}

func hasSig(r *runResult, races []found, sig string) (bool, string, string) {
	for _, v := range r.Violations {
		if v.Sig == sig {
			return true, v.Msg, ""
		}
	}
	for _, rc := range races {
		if rc.sig == sig {
			return true, rc.msg, rc.tsan
		}
	}
	return false, "", ""
}

func confirmAndShrink(f *found, dir string, doShrink bool) (string, bool, error) {
	if dir == "" {
		dir = "."
	}
	if f.batchCount > 0 {
		return confirmBatch(f, dir)
	}
	tf := tapeFile{Property: prop, World: world, Seed: f.seed}
	r, races, err := runTape(tf, false)
	if err != nil {
		return "", false, err
	}
	ok, _, _ := hasSig(r, races, f.sig)
	if !ok {
		return "", false, nil
	}
	tape := r.Tape
	origLen := len(tape)
	budgetRuns := 300
	deadline := time.Now().Add(40 * time.Second)
	if !doShrink {
		budgetRuns = 1
	}
	tries := 0
	test := func(t []uint64) bool {
		if tries >= budgetRuns || time.Now().After(deadline) {
			return false
		}
		tries++
		rr, rc, err := runTape(tapeFile{World: world, Seed: f.seed, Tape: t}, false)
		if err != nil {
			return false
		}
		ok, _, _ := hasSig(rr, rc, f.sig)
		return ok
	}
	// the explicit tape must reproduce on its own
	if !test(tape) {
		return "", false, fmt.Errorf("explicit tape of seed %d does not reproduce %s", f.seed, f.sig)
	}
	// 1. truncate (entries beyond the end read as 0): binary search the shortest prefix
	lo, hi := 0, len(tape)
	for lo < hi {
		mid := (lo + hi) / 2
		if test(tape[:mid]) {
			hi = mid
		} else {
			lo = mid + 1
		}
	}
	if hi < len(tape) && test(tape[:hi]) {
		tape = append([]uint64(nil), tape[:hi]...)
	}
	// 2. zero chunks (fault -> no fault, preemption -> none, smallest shape)
	for chunk := len(tape) / 2; chunk >= 1; chunk /= 2 {
		for s := 0; s < len(tape); s += chunk {
			e := s + chunk
			if e > len(tape) {
				e = len(tape)
			}
			allZero := true
			for _, v := range tape[s:e] {
				if v != 0 {
					allZero = false
				}
			}
			if allZero {
				continue
			}
			cand := append([]uint64(nil), tape...)
			for i := s; i < e; i++ {
				cand[i] = 0
			}
			if test(cand) {
				tape = cand
			}
		}
		if tries >= budgetRuns || time.Now().After(deadline) {
			break
		}
	}
	// drop trailing zeros
	for len(tape) > 0 && tape[len(tape)-1] == 0 {
		tape = tape[:len(tape)-1]
	}
	if tape == nil {
		tape = []uint64{}
	}
	// final run with trace
	final := tapeFile{World: world, Seed: f.seed, Tape: tape}
	rr, rc, err := runTape(final, true)
	if err != nil {
		return "", false, err
	}
	ok, msg, tsan := hasSig(rr, rc, f.sig)
	if !ok {
		// shrinking went wrong: fall back to the unshrunk tape
		final.Tape = r.Tape
		rr, rc, err = runTape(final, true)
		if err != nil {
			return "", false, err
		}
		ok, msg, tsan = hasSig(rr, rc, f.sig)
		if !ok {
			return "", false, nil
		}
	}
	nz := 0
	for _, v := range final.Tape {
		if v != 0 {
			nz++
		}
	}
	final.Property = prop
	final.Scale = scale
	final.Signature = f.sig
	final.Message = msg
	final.TraceHash = fmt.Sprintf("%016x", rr.Hash)
	final.Trace = rr.Trace
	if len(final.Trace) > 400 {
		final.Trace = final.Trace[len(final.Trace)-400:]
	}
	final.TSan = tsan
	final.Note = rr.Note
	final.Shrink = fmt.Sprintf("tape %d -> %d entries (%d non-zero) in %d re-executions", origLen, len(final.Tape), nz, tries)
	if dir == "" {
		dir = "."
	}
	os.MkdirAll(dir, 0o755)
	name := fmt.Sprintf("%s-%d-%s.json", prop, f.seed, sanitize(f.sig))
	path := filepath.Join(dir, name)
	b, _ := json.MarshalIndent(final, "", " ")
	if err := os.WriteFile(path, b, 0o644); err != nil {
		return "", false, err
	}
	return path, true, nil
}

func sanitize(s string) string {
	var b strings.Builder
	for _, c := range s {
		switch {
		case c >= 'a' && c <= 'z', c >= 'A' && c <= 'Z', c >= '0' && c <= '9', c == '.', c == '-':
			b.WriteRune(c)
		default:
			b.WriteByte('_')
		}
	}
	out := b.String()
	if len(out) > 80 {
		out = out[:80]
	}
	return out
}

func doReplay(path string) int {
	b, err := os.ReadFile(path)
	if err != nil {
		fmt.Fprintln(os.Stderr, "simdrive:", err)
		return 2
	}
	var tf tapeFile
	if err := json.Unmarshal(b, &tf); err != nil {
		fmt.Fprintln(os.Stderr, "simdrive:", err)
		return 2
	}
	if worker == "" {
		fmt.Fprintln(os.Stderr, "simdrive: -worker required")
		return 2
	}
	world = tf.World
	if tf.Scale > 0 {
		scale = tf.Scale
	}
	if tf.BatchCount > 0 {
		rcs, err := runBatch(tf.BatchFrom, tf.BatchCount)
		if err != nil {
			fmt.Fprintln(os.Stderr, "simdrive:", err)
			return 2
		}
		for _, rc := range rcs {
			if rc.sig == tf.Signature {
				fmt.Printf("VIOLATION property=%s replay=%s\n  signature: %s (seed %d of batch %d+%d)\n%s\n", tf.Property, path, rc.sig, rc.seed, tf.BatchFrom, tf.BatchCount, rc.tsan)
				return 1
			}
		}
		fmt.Printf("NOT-REPRODUCED property=%s signature=%s (batch %d+%d)\n", tf.Property, tf.Signature, tf.BatchFrom, tf.BatchCount)
		return 0
	}
	r, races, err := runTape(tapeFile{World: tf.World, Seed: tf.Seed, Tape: tf.Tape, Scale: tf.Scale}, true)
	if err != nil {
		fmt.Fprintln(os.Stderr, "simdrive:", err)
		return 2
	}
	ok, msg, tsan := hasSig(r, races, tf.Signature)
	hash := fmt.Sprintf("%016x", r.Hash)
	if ok {
		fmt.Printf("VIOLATION property=%s replay=%s\n", tf.Property, path)
		fmt.Printf("  signature: %s\n  %s\n  trace hash %s (recorded %s, identical=%v)\n", tf.Signature, firstLine(msg, 600), hash, tf.TraceHash, hash == tf.TraceHash)
		if tsan != "" {
			fmt.Println(tsan)
		}
		return 1
	}
	fmt.Printf("NOT-REPRODUCED property=%s signature=%s trace hash %s (recorded %s)\n", tf.Property, tf.Signature, hash, tf.TraceHash)
	for _, v := range r.Violations {
		fmt.Printf("  other violation in this run: %s: %s\n", v.Sig, firstLine(v.Msg, 300))
	}
	return 0
}

// ---- evidence ----

func splitBar(s string) []string {
	if s == "" {
		return nil
	}
	return strings.Split(s, "|")
}

func writeEvidence(path, tier string, seed int64, a *agg, wall float64, nViol int, knownSeen []string, sitesPath, rule, assume, real, stub string) error {
	faults := map[string]int64{}
	probes := map[string]int64{}
	ops := map[string]int64{}
	other := map[string]int64{}
	var zeroProbes []string
	for k, v := range a.counters {
		switch {
		case strings.HasPrefix(k, "fault_"):
			faults[strings.TrimPrefix(k, "fault_")] = v
		case strings.HasPrefix(k, "probe_"):
			probes[strings.TrimPrefix(k, "probe_")] = v
		case strings.HasPrefix(k, "op_"):
			ops[strings.TrimPrefix(k, "op_")] = v
		default:
			other[k] = v
		}
	}
	_ = zeroProbes
	sitesTotal := map[string]int{}
	sitesHit := map[string]int{}
	if sitesPath != "" {
		if b, err := os.ReadFile(sitesPath); err == nil {
			var ss []siteInfo
			if json.Unmarshal(b, &ss) == nil {
				for _, s := range ss {
					sitesTotal[s.Pkg]++
					if _, ok := a.sites[s.ID]; ok {
						sitesHit[s.Pkg]++
					}
				}
			}
		}
	}
	siteCov := map[string]string{}
	for p, n := range sitesTotal {
		if sitesHit[p] > 0 {
			siteCov[p] = fmt.Sprintf("%d/%d", sitesHit[p], n)
		}
	}
	pol := map[string]int64{}
	for p, n := range a.policies {
		pol[policyName(p)] = n
	}
	samples := make([]interface{}, 0, len(a.samples))
	for _, s := range a.samples {
		samples = append(samples, s)
	}
	if len(samples) == 0 {
		samples = append(samples, map[string]interface{}{"note": "no non-trivial run in this batch"})
	}
	cov := map[string]interface{}{
		"evaluations":                     a.runs,
		"distinct_nontrivial":             len(a.nontrivHashes),
		"rule":                            rule,
		"samples":                         samples,
		"seeds":                           fmt.Sprintf("%d..%d", a.seedLo, a.seedHi),
		"runs_per_hour":                   int64(float64(a.runs) / wall * 3600),
		"sim_seconds":                     float64(a.simTime) / 1e9,
		"yields":                          a.steps,
		"task_switches":                   a.switches,
		"preemptions":                     a.preempts,
		"distinct_traces":                 len(a.hashes),
		"interleaving_pairs":              len(a.pairs),
		"fault_counts":                    faults,
		"probes":                          probes,
		"operations":                      ops,
		"other_counters":                  other,
		"policies":                        pol,
		"sites_hit":                       siteCov,
		"max_tasks":                       a.maxTasks,
		"sim_deadlocks":                   a.dead,
		"components":                      map[string]interface{}{"real": splitBar(real), "stub": splitBar(stub)},
		"known_findings_seen":             knownSeen,
		"race_reports_counted_not_judged": raceReportsNotJudged,
		"workers":                         workers,
	}
	ev := map[string]interface{}{
		"property_id": prop,
		"tier":        tier,
		"seed":        seed,
		"level":       "exploration",
		"coverage":    cov,
		"assumptions": splitBar(assume),
		"wall_s":      wall,
		"violations":  nViol,
	}
	b, err := json.MarshalIndent(ev, "", " ")
	if err != nil {
		return err
	}
	os.MkdirAll(filepath.Dir(path), 0o755)
	return os.WriteFile(path, b, 0o644)
}
