// Command simworld is the simulation worker: it executes simulated runs of
// one world for a range of seeds (or one explicit tape) in a single process
// with GOMAXPROCS=1 and prints one JSON line per run on stdout. Race-detector
// reports go to stderr, each preceded by the "RUN seed=<n>" marker of the run
// that produced it.
package main

import (
	"bufio"
	"encoding/json"
	"flag"
	"fmt"
	"io"
	"log"
	"os"
	"runtime"
	"runtime/debug"
	"sort"
	"sync"

	"github.com/brocaar/lorawan"

	"verif/sim"
	"verif/simrt"
	"verif/simrt/pkgstate"
	"verif/worlds"
	_ "verif/worlds/all"
)

var runsSinceGC int

// gcBetweenRuns collects garbage between runs only (every 64 runs, or earlier
// when the heap has grown).
func gcBetweenRuns() {
	runsSinceGC++
	if runsSinceGC >= 64 {
		runsSinceGC = 0
		runtime.GC()
		return
	}
	if runsSinceGC%8 == 0 {
		var ms runtime.MemStats
		runtime.ReadMemStats(&ms)
		if ms.HeapAlloc > 512<<20 {
			runsSinceGC = 0
			runtime.GC()
		}
	}
}

type tapeFile struct {
	World string   `json:"world"`
	Seed  uint64   `json:"seed"`
	Tape  []uint64 `json:"tape"`
	Scale int      `json:"scale,omitempty"`
}

type summary struct {
	Summary  bool     `json:"summary"`
	Aborted  bool     `json:"aborted,omitempty"`
	Leftover bool     `json:"leftover,omitempty"`
	Runs     int      `json:"runs"`
	Pairs    []uint32 `json:"pairs"`
	Sites    []int    `json:"sites"`
	Counters []string `json:"counter_names"`
}

func main() {
	runtime.GOMAXPROCS(1)
	world := flag.String("world", "", "world name")
	from := flag.Uint64("from", 1, "first seed")
	count := flag.Int("count", 1, "number of seeds")
	tapePath := flag.String("tape", "", "run one explicit tape (json file with world, seed, tape)")
	trace := flag.Bool("trace", false, "include the event trace in the output")
	wantTape := flag.Bool("emit-tape", false, "include the consumed tape in the output")
	list := flag.Bool("list", false, "list worlds")
	stepCap := flag.Int64("stepcap", 0, "override the step cap")
	scale := flag.Int("scale", 1, "history length multiplier (thorough tier: 3)")
	flag.Parse()

	log.SetOutput(io.Discard) // the library logs decode warnings to the global logger
	// between runs every package-level variable of the library is rewound in
	// place to its state at process start (verif/simrt/pkgstate); the
	// generated registry hook stays as a second line for the registry itself
	sim.ResetHooks = append(sim.ResetHooks, pkgstate.Restore, lorawan.VerifResetRegistry)
	// pools start empty in every run and the collector never runs inside a
	// run (see check.sh: sync.Pool seam)
	debug.SetGCPercent(-1)
	sim.ResetHooks = append(sim.ResetHooks, sync.VerifFlushPools, gcBetweenRuns)

	if *list {
		var names []string
		for n := range worlds.Registry {
			names = append(names, n)
		}
		sort.Strings(names)
		for _, n := range names {
			fmt.Println(n)
		}
		return
	}
	if *scale > 0 {
		sim.Scale = *scale
	}
	if *stepCap > 0 {
		simrt.SetStepCap(*stepCap)
	}
	out := bufio.NewWriterSize(os.Stdout, 1<<16)
	defer out.Flush()
	enc := json.NewEncoder(out)

	if *tapePath != "" {
		b, err := os.ReadFile(*tapePath)
		if err != nil {
			fmt.Fprintln(os.Stderr, "simworld:", err)
			os.Exit(2)
		}
		var tf tapeFile
		if err := json.Unmarshal(b, &tf); err != nil {
			fmt.Fprintln(os.Stderr, "simworld:", err)
			os.Exit(2)
		}
		if *world == "" {
			*world = tf.World
		}
		if tf.Scale > 0 {
			sim.Scale = tf.Scale
		}
		build, ok := worlds.Registry[*world]
		if !ok {
			fmt.Fprintln(os.Stderr, "simworld: unknown world", *world)
			os.Exit(2)
		}
		fmt.Fprintf(os.Stderr, "RUN seed=%d\n", tf.Seed)
		tape := tf.Tape
		if tape == nil {
			// seed-only replay
			res := sim.RunOne(tf.Seed, nil, build, *trace, *wantTape)
			enc.Encode(res)
		} else {
			res := sim.RunOne(tf.Seed, tape, build, *trace, *wantTape)
			enc.Encode(res)
		}
		fmt.Fprintf(os.Stderr, "END seed=%d\n", tf.Seed)
		return
	}

	build, ok := worlds.Registry[*world]
	if !ok {
		fmt.Fprintln(os.Stderr, "simworld: unknown world", *world)
		os.Exit(2)
	}
	hangs := 0
	for i := 0; i < *count; i++ {
		seed := *from + uint64(i)
		fmt.Fprintf(os.Stderr, "RUN seed=%d\n", seed)
		var before []uint32
		if os.Getenv("VERIF_DEBUG_SITES") != "" {
			before = simrt.SiteHitCounts()
		}
		res := sim.RunOne(seed, nil, build, *trace, *wantTape)
		if before != nil {
			// debugging aid: per-site execution counts of this run on stderr
			after := simrt.SiteHitCounts()
			fmt.Fprintf(os.Stderr, "SITES seed=%d", seed)
			for k := range after {
				if d := after[k] - before[k]; d != 0 {
					fmt.Fprintf(os.Stderr, " %d:%d", k, d)
				}
			}
			fmt.Fprintln(os.Stderr)
		}
		if err := enc.Encode(res); err != nil {
			fmt.Fprintln(os.Stderr, "simworld:", err)
			os.Exit(2)
		}
		// a tree in which library calls do not terminate makes every run
		// expensive: a handful of such runs is enough evidence
		for _, v := range res.Violations {
			if len(v.Sig) > 5 && v.Sig[:5] == "hang:" {
				hangs++
				break
			}
		}
		if res.Leaked && hangs < 5 {
			// abandoned goroutines stay behind (a worker pool of the library
			// waiting for work, or a task blocked for ever): this process is
			// done, the driver starts another one for the remaining seeds
			fmt.Fprintf(os.Stderr, "END leftover goroutines after seed %d\n", seed)
			enc.Encode(summary{Summary: true, Runs: i + 1, Aborted: true, Leftover: true, Pairs: simrt.Pairs(), Sites: simrt.SitesHit(), Counters: simrt.CounterNames()})
			out.Flush()
			os.Exit(0)
		}
		if hangs >= 5 {
			fmt.Fprintf(os.Stderr, "END aborted after %d runs: %d runs hit the step cap\n", i+1, hangs)
			enc.Encode(summary{Summary: true, Runs: i + 1, Aborted: true, Pairs: simrt.Pairs(), Sites: simrt.SitesHit(), Counters: simrt.CounterNames()})
			return
		}
	}
	fmt.Fprintf(os.Stderr, "END\n")
	enc.Encode(summary{Summary: true, Runs: *count, Pairs: simrt.Pairs(), Sites: simrt.SitesHit(), Counters: simrt.CounterNames()})
}
