// empty: allows the body-less go:linkname declaration in mapseed.go
