import json,re,sys
wave=sys.argv[1]           # 12
after=json.load(open(sys.argv[2]))  # id -> {"after": "...", "by_design": "...", "other": {"C07": "..."}}
first={}
for f in sys.argv[3:]:
    for l in open(f):
        m=re.match(r'(C\d\d-w%sm\d) (C\d\d) (CAUGHT|MISSED|BROKEN)'%wave,l)
        if m: first[m.group(1)]={'CAUGHT':'caught','MISSED':'missed','BROKEN':'machinery error (exit 2)'}[m.group(3)]
cur={}
id=None
for l in open('/tmp/mut%s/w%s.log'%(wave,wave)):
    m=re.match(r'== (\S+)',l)
    if m: id=m.group(1); continue
    m=re.match(r'(C\d\d) (CAUGHT: (.*)|MISSED|BROKEN.*)',l)
    if m and id: cur.setdefault(id,{})[m.group(1)]=m.group(2)
def squash(s):
    sigs=s.split()
    groups={}
    for x in sigs:
        parts=x.split(':')
        key=parts[0] if len(parts)<3 else parts[0]+':'+parts[1] if parts[0] in('race',) else parts[0]
        groups.setdefault(parts[0],set()).add(x)
    out=[]
    for k,v in groups.items():
        v=sorted(v)
        out.append(v[0] if len(v)==1 else (k+':* (%d)'%len(v)))
    return ' '.join(out)
res={}
for id in sorted(cur):
    e={}
    for p,r in cur[id].items():
        if r.startswith('CAUGHT'):
            s=squash(r[8:])
            a=after.get(id,{}).get('after')
            e[p]=('(**after** %s) '%a if a and first.get(id)!='caught' else '')+s+(' (first pass)' if first.get(id)=='caught' else '')
        else:
            e[p]=r+((' ('+after[id]['by_design']+')') if id in after and 'by_design' in after[id] else '')
    for p,t in after.get(id,{}).get('other',{}).items(): e[p]=t
    e['_first']=first.get(id,'?')
    res[id]=e
json.dump(res,open('/tmp/w%scaught.json'%wave,'w'),indent=1)
n=sum(1 for v in res.values() if v['_first']=='caught')
print(len(res),'first caught',n)
for k,v in res.items():
    print(k,v['_first'],{a:b[:70] for a,b in v.items() if a!='_first'})
