import json,sys
wave=sys.argv[1]
c=json.load(open('/tmp/w%scaught.json'%wave))
def cut(s,n): return s if len(s)<=n else s[:n-1]+'…'
print('| id | change | needs | caught by |\n|---|---|---|---|')
for k in sorted(c):
    m=json.load(open('/verif/seeded/%s/meta.json'%k))
    by=[]
    for p,t in c[k].items():
        if p=='_first': continue
        if t.startswith('MISSED'): by.append('not %s%s'%(p,(' '+t[7:]) if len(t)>7 else ''))
        elif t.startswith('(**after**'): by.append('%s %s'%(p,t[:t.index(')')+1]))
        else: by.append(p)
    print('| %s | %s | %s | %s |'%(k,cut(m['summary'],170).replace('|','\\|'),cut(m['needs_to_manifest'],150).replace('|','\\|'),'; '.join(by)))
