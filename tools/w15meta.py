import json,os,re,sys
origin="wave 15: independent sub-agent; property text, own worktree, summaries of earlier changes to avoid, ordinary legal use only, and a theme: (m1,m2) executed but not asserted (measure with -coverprofile what the suite runs without looking at the result, plant the change there); (m3,m4) text, JSON and the other representations (MarshalText / UnmarshalText, JSON, String, Scan / Value: a value that goes through that form comes out different, the binary path alone behaves as before)"
M={
"C05-w15m1":("The registry literal is regrouped by class with downlink / uplink comments; PingSlotInfoReq lands next to the other class-B requests, in the downlink map.","A frame carrying CID 0x10 in either direction."),
"C05-w15m2":("MACPayload.MarshalBinary gets a size guard with the constant 242 (N, the largest FRMPayload) where 250 (M, the largest MACPayload) is right.","A MACPayload of 243..250 octets: 235..242 application bytes less any FOpts."),
"C05-w15m3":("PHYPayload.MarshalJSON decodes raw FOpts 'for display' through the caller's *MACPayload; DecodeFOptsToMACCommands becomes a no-op on decoded FOpts. Re-encoding masks RFU bits, so the MIC is computed over other bytes than were received.","json.Marshal of a frame between unmarshal and MIC validation (or between EncryptFOpts and SetMIC)."),
"C05-w15m4":("DeviceTimeAnsPayload.UnmarshalJSON reads the nanoseconds through float64 (256 ns resolution at today's GPS time): half of the 1/256 s values come back one step low.","A DeviceTimeAns payload that was read from its JSON form before it is sent."),
"C07-w15m1":("NewChannelReq encoder: the `freq/100 >= 2^24` check is removed as dead code - it was the only upper bound of the 200 Hz stepping: the top byte of an oversized value is overwritten by DrRange.","A frequency of 3 355 443 200 Hz or more that is a multiple of 200."),
"C07-w15m2":("ForceRejoinReq encoder accepts RejoinType 1 as an alias of 0 and sends 0; the decoder is unchanged.","RejoinType exactly 1."),
"C07-w15m3":("(same as C05-w15m4, second agent) DeviceTimeAnsPayload.UnmarshalJSON through float64.","A DeviceTimeAns value that goes through JSON and back with a time beyond 2^53 ns."),
"C07-w15m4":("ProprietaryMACCommandPayload JSON: written as hex, read base64-first (hex digits are valid base64): an even-length payload reads back as other bytes of another length.","A proprietary payload of even, non-zero length that goes through JSON."),
"C10-w15m1":("macPayloadMutex and macPayloadRegistry bundled in one macPayloadStore type; the read accessors have VALUE receivers: each call copies the embedded RWMutex and locks the copy, readers are no longer excluded from a registration's map write.","A registration with size > 0 running concurrently with a look-up."),
"C10-w15m2":("firmwaremanagement DevRebootCountdownReq/Ans decoders accumulate the 24-bit Countdown straight into the field (`p.Countdown |= ...`) without clearing it.","A re-used payload value whose earlier countdown has a bit the new one lacks."),
"C10-w15m3":("EUI64 / DevAddr / NetID / AES128Key Scan folded into one helper that also takes hex strings - and returns nil for a NULL column, leaving the destination as it was.","A NULL column scanned into a destination that already holds a value (one row struct re-used across rows.Next())."),
"C10-w15m4":("`omitempty` on the optional members of the frame structs' JSON (FOpts, FPort, FRMPayload, MACCommand.Payload, CFList): a nil part is absent rather than null, so encoding/json no longer resets it in a used destination.","A JSON round trip into a used value whose previous frame had an optional part the current one lacks."),
"C14-w15m1":("Generic planner: 'never send a LinkADRReq that changes nothing' compares each block's mask with ONE device mask computed as deviceChMask[c%16] (the OR of all the device's blocks).","A plan with more than 16 channels and a differing block whose target mask equals the folded device mask (sub-band shaped sets)."),
"C14-w15m2":("Generic planner: active custom channels are switched on in a second pass `for _, pl := range payloads { pl.ChMask[c%16] = true }` - pl is a copy, ChMask an array: every write is lost.","A dynamic band with custom channels active on the device and a difference in their block."),
"C14-w15m3":("ChMask gets a text form ('0-2,4-7,12') whose String() never flushes a run that reaches channel 15.","Generated payloads kept as text/JSON between planning and applying, a mask with bit 15 set."),
"C14-w15m4":("Redundancy.UnmarshalJSON (range validation) declared on a value receiver: every decoded Redundancy is {0,0}.","Generated payloads kept as JSON between planning and applying, ChMaskCntl != 0."),
"C15-w15m1":("CFList eligibility through a shared Channel.supportsDR helper: 'has exactly the CFList data-rate range' becomes 'covers at least the range'.","A custom channel with a wider range (AddChannel(f, 0, 6) on EU868) among the first few."),
"C15-w15m2":("CFListChannelPayload.MarshalBinary refuses a frequency that already occurred in an earlier entry.","Two of the first five CFList-eligible custom channels share a frequency (the same AddChannel issued twice)."),
"C15-w15m3":("backend.Frequency.MarshalJSON written as an 'exact decimal' without zero-padding the sub-MHz part: 865062500 Hz is written 865.625.","A band frequency with a non-zero part below 100 kHz (IN865 channel 0) that goes through the DeviceProfile JSON."),
"C15-w15m4":("backend.Frequency / Percentage MarshalJSON moved to pointer receivers: a DeviceProfile marshalled by value writes Hz, which UnmarshalJSON reads as MHz.","The band's RX2 / ping-slot frequency read back from a profile that was marshalled by value."),
"C16-w15m1":("calculateDownlinkJoinMIC treats joinReqType == 0 as 'left blank' and uses 0xff - 0 is RejoinRequestType0.","A rejoin-request of type 0 with OptNeg (a checker that computes the accept's MIC itself)."),
"C16-w15m2":("The request context drops its devEUI field; JSIntKey / JSEncKey are derived from DeviceKeys.DevEUI, which a storage callback need not fill.","A GetDeviceKeysByDevEUIFunc that returns the keys without the DevEUI, and a 1.1 join or any rejoin."),
"C16-w15m3":("DLSettings.UnmarshalText 'accepts the 0x prefix' with strings.TrimLeft(text, \"0x\"): every leading 0 is stripped, '00'..'0f' no longer decode.","A DLSettings octet 0x00..0x0f (OptNeg unset, RX1DROffset 0)."),
"C16-w15m4":("A new check 'the frame's JoinEUI equals the ReceiverID' compares JoinEUI.String() with the raw ReceiverID text.","A ReceiverID written in upper case or with the 0x prefix."),
}
caught=json.load(open(sys.argv[1])) if len(sys.argv)>1 else {}
for k,(summ,needs) in M.items():
    d=f"/verif/seeded/{k}"
    if not os.path.exists(d+"/patch.diff"): print("skip",k); continue
    files=[l[6:].strip() for l in open(d+"/patch.diff") if l.startswith("+++ b/")]
    meta={"property":k[:3],"summary":summ,"needs_to_manifest":needs,"files":files,
      "demo_cmd":"confirm_seeded.sh seeded/%s"%k,"origin":origin,
      "confirmed":{"applies_to":"/repo HEAD 855d612 (fix commits included)","builds":True,"existing_suite":"passes (only TestAsyncClient fails, as on the baseline)","demo":"fails with the patch, passes without (confirm_seeded.sh)"},
      "ran":"mutrun.sh <patch> <props>: check.sh <prop> quick against a scratch worktree with the patch applied (VERIF_REPO)",
      "caught_by":dict(caught.get(k,{})),"agent_notes":"notes.md"}
    if '_first' in meta['caught_by']:
        meta['first_contact_with_the_checks_as_committed_before_this_wave']=meta['caught_by'].pop('_first')
    json.dump(meta,open(d+"/meta.json","w"),indent=1)
print(len(M))
