import re,os,sys
src=open('/tmp/w13meta.py').read()
ns={}
exec(src.split("caught=json.load")[0].replace("import json,os,re,sys",""),ns)
M=ns['M']
themeA="*two features that meet*. Each feature alone behaves exactly as before; the defect needs two of them used together: OptNeg x rejoin types, LoRaWAN 1.1 x MAC commands on port 0, FOpts encryption x piggy-backed commands x ACK/ConfFCnt, ADR x custom channels x disabled standard channels, dwell-time or repeater compatibility x CFList / channel tables, proprietary commands x the 15-byte FOpts limit, confirmed frames x frame-counter roll-over, KEK for the NS x no KEK for the AS, CFList x join-accept for a rejoin, a band with custom channels x the channel-mask CFList, uplink-only and downlink-only commands in one stream, class B commands next to class A ones. Write the change as a special case, fast path, refactoring or clean-up that is correct for each feature on its own (which is what the existing tests exercise) and wrong for the combination."
themeB="*leniency and compatibility shims*. The library becomes tolerant of slightly malformed or legacy input from known buggy peers - trailing padding, a missing optional byte, an old field order, a value off by one from a widespread firmware, upper/lower-case or prefixed hex, a deprecated alias, a version sniffed from the content - or gains a work-around keyed on something in the input; and the tolerance misreads, mis-routes or silently alters some perfectly well-formed input that happens to look like the legacy case. The change must read like a real interoperability fix with a plausible comment; the defect must be silent (no error, no panic) and need a specific legal input to show."
themeN="Earlier rounds already covered: internal data structures, correct goroutines / pools / caches / time-outs, changed error texts and result codes, stricter validation, other orders of results and callbacks, hardening against misuse, wider number types, lazily built indexes, re-ordered locking. This round: (a) one *correct* leniency / compatibility shim: malformed or legacy input that used to be refused is now accepted and read sensibly, while every well-formed input is read exactly as before (argue why no well-formed input can look like the legacy case); (b) one *correct* special case or fast path for a combination of two features (e.g. OptNeg with rejoin, 1.1 with port-0 commands, custom channels with ADR, NS KEK without AS KEK) that gives the same results as the general path for every input; (c) one change to how values are built and handed out: constructors that pre-fill defaults differently, results with spare capacity or shared read-only backing data that the library itself never writes again, decoders that re-use the receiver's own slices and pointers when sizes fit (results still equal to a decode into a fresh value), encoders that use scratch space of their own."
note="\n\nIMPORTANT: do NOT use `git stash` (the stash is shared by all worktrees of the repository and other agents are working in parallel); to test on the untouched tree use `git diff > /tmp/mut14/out/<your dir>/wip.diff; git checkout -- .; ...; git apply /tmp/mut14/out/<your dir>/wip.diff`.\n"
for p in ['C05','C07','C10','C14','C15','C16']:
    for v in ['a','b','n']:
        t=open(f'/tmp/mut13/out/{p}-{v}/INSTRUCTIONS.txt').read().replace('mut13','mut14')
        if v in 'ab':
            t=re.sub(r'THEME FOR YOUR CHANGES: .*?\n\nALREADY', lambda m:'THEME FOR YOUR CHANGES: '+(themeA if v=='a' else themeB)+'\n\nALREADY', t, flags=re.S)
            add=''.join(f"  - {M[k][0][:330]}\n" for k in sorted(M) if k.startswith(p))
            t=re.sub(r'\n\nPROCEDURE for each change', lambda m:'\n'+add.rstrip('\n')+'\n\nPROCEDURE for each change', t, count=1)
        else:
            t=re.sub(r'Earlier rounds already covered:.*?with identical results for every caller\.', lambda m:themeN, t, flags=re.S)
        t=t.replace('\n\nPROCEDURE for each change', note+'\nPROCEDURE for each change',1)
        os.makedirs(f'/tmp/mut14/out/{p}-{v}',exist_ok=True)
        open(f'/tmp/mut14/out/{p}-{v}/INSTRUCTIONS.txt','w').write(t)
print('ok')
