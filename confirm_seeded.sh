#!/bin/bash
# confirm_seeded.sh <dir with patch.diff + demo_test.go> [benign]: confirm a seeded change in a scratch worktree of /repo:
# applies, builds, the repository's suite passes (only TestAsyncClient may fail), the demonstration fails with the
# change and passes without it (benign: the demonstration passes with the change). Prints one line.
set -u
export GOFLAGS=-mod=mod GOPROXY=off GOSUMDB=off GOTOOLCHAIN=local
D="$(readlink -f "$1")"; KIND="${2:-breaking}"
WT="/tmp/mut/confirm-$$"
mkdir -p /tmp/mut
git -C /repo worktree add -q --detach "$WT" HEAD || { echo "$D: worktree failed"; exit 2; }
trap 'git -C /repo worktree remove --force "$WT" >/dev/null 2>&1' EXIT
RACE=""; grep -q "race" "$D/notes.md" 2>/dev/null && RACE="-race"
rundemo() { mkdir -p "$WT/zz_demo"; cp "$D"/demo_test.go "$WT/zz_demo/"; ( cd "$WT" && timeout 600 go test $RACE -vet=off -count=1 ./zz_demo/ >"$WT/.demo.log" 2>&1 ); echo $?; }
BASE=$(rundemo)
git -C "$WT" apply "$D/patch.diff" 2>/dev/null || { echo "$(basename $(dirname $D))/$(basename $D): PATCH DOES NOT APPLY"; exit 1; }
( cd "$WT" && go build ./... ) >/dev/null 2>&1 || { echo "$D: DOES NOT BUILD"; exit 1; }
SUITE=$( cd "$WT" && go test -vet=off -count=1 $(go list ./... | grep -v zz_demo) 2>&1 | grep -E "^--- FAIL|^FAIL|panic:" | grep -v "TestAsyncClient" | grep -v "^FAIL$" | grep -v "lorawan/backend\s" | tr '\n' ';' )
WITH=$(rundemo)
echo "$(basename $(dirname $D))/$(basename $D): demo without=$BASE with=$WITH race='$RACE' suite-failures='${SUITE}'"
