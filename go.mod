module verif

go 1.21

require (
	github.com/anishathalye/porcupine v1.3.0
	github.com/brocaar/lorawan v0.0.0
)

require (
	github.com/NickBall/go-aes-key-wrap v0.0.0-20170929221519-1c3aa3e4dfc5 // indirect
	github.com/cespare/xxhash/v2 v2.1.1 // indirect
	github.com/dgryski/go-rendezvous v0.0.0-20200823014737-9f7001d12a5f // indirect
	github.com/go-redis/redis/v8 v8.8.3 // indirect
	github.com/jacobsa/crypto v0.0.0-20190317225127-9f44e2d11115 // indirect
	github.com/pkg/errors v0.9.1 // indirect
	github.com/sirupsen/logrus v1.7.0 // indirect
	go.opentelemetry.io/otel v0.20.0 // indirect
	go.opentelemetry.io/otel/metric v0.20.0 // indirect
	go.opentelemetry.io/otel/trace v0.20.0 // indirect
	golang.org/x/sys v0.0.0-20210124154548-22da62e12c0c // indirect
)

replace github.com/brocaar/lorawan => /repo
