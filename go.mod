module verif

go 1.21

require (
	github.com/anishathalye/porcupine v1.3.0
	github.com/brocaar/lorawan v0.0.0
)

require (
	github.com/jacobsa/crypto v0.0.0-20190317225127-9f44e2d11115 // indirect
	github.com/pkg/errors v0.9.1 // indirect
)

replace github.com/brocaar/lorawan => /repo
