module verif

go 1.21

require (
	github.com/anishathalye/porcupine v1.3.0
	github.com/brocaar/lorawan v0.0.0
)

replace github.com/brocaar/lorawan => /repo
