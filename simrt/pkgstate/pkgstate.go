// Package pkgstate restores the package-level variables of the instrumented
// library packages to their state at process start, IN PLACE, between
// simulated runs - so that every run of a worker process starts from the same
// process-wide state whatever earlier runs did (a registry entry added, a
// "warn once" flag set, a package-level cache filled, a shared table edited).
//
// The instrumenter generates, in each library package of the scratch copy, a
// file whose init() calls Register with the addresses of all package-level
// variables. Register takes a deep snapshot (at init time, after the
// package's own initialisers); Restore writes the snapshot back into the same
// objects: pointers, maps and slices keep their identity (other variables may
// refer to them), their contents are rewound.
package pkgstate

import (
	"reflect"
	"sort"
	"unsafe"
)

// MapShrink, if set, gives an emptied map the shape of a freshly made one (the
// worker sets it to a function of its runtime overlay, see mkoverlay.sh): a
// package-level map that grew in an earlier run would otherwise keep its
// larger bucket array, and with it another iteration order, in the next.
var MapShrink func(m unsafe.Pointer)

// Var is one package-level variable: its name and its address.
type Var struct {
	Name string
	Ptr  interface{}
}

type root struct {
	name    string
	restore func()
}

var (
	roots []root
	nVars int
)

type seenKey struct {
	p unsafe.Pointer
	t reflect.Type
	n int
}

// Register snapshots the variables of one package.
func Register(pkg string, vars []Var) {
	sort.Slice(vars, func(i, j int) bool { return vars[i].Name < vars[j].Name })
	for _, v := range vars {
		rv := reflect.ValueOf(v.Ptr)
		if rv.Kind() != reflect.Ptr || rv.IsNil() {
			continue
		}
		seen := map[seenKey]bool{}
		fn := snap(rv.Elem(), seen, 0)
		roots = append(roots, root{name: pkg + "." + v.Name, restore: fn})
		nVars++
	}
}

// Restore rewinds every registered variable.
func Restore() {
	for _, r := range roots {
		r.restore()
	}
}

// Count is the number of registered variables.
func Count() int { return nVars }

// writable returns v in a form that can be Set even if it was reached
// through an unexported struct field.
func writable(v reflect.Value) reflect.Value {
	if v.CanSet() {
		return v
	}
	if v.CanAddr() {
		return reflect.NewAt(v.Type(), unsafe.Pointer(v.UnsafeAddr())).Elem()
	}
	return v
}

func isScalar(k reflect.Kind) bool {
	switch k {
	case reflect.Bool, reflect.Int, reflect.Int8, reflect.Int16, reflect.Int32, reflect.Int64,
		reflect.Uint, reflect.Uint8, reflect.Uint16, reflect.Uint32, reflect.Uint64, reflect.Uintptr,
		reflect.Float32, reflect.Float64, reflect.Complex64, reflect.Complex128, reflect.String,
		reflect.Func, reflect.Chan, reflect.UnsafePointer:
		return true
	}
	return false
}

// flat reports whether values of type t contain no pointers, maps, slices
// or interfaces to descend into (they are saved and restored as one value).
func flat(t reflect.Type) bool {
	switch t.Kind() {
	case reflect.Array:
		return flat(t.Elem())
	case reflect.Struct:
		for i := 0; i < t.NumField(); i++ {
			if !flat(t.Field(i).Type) {
				return false
			}
		}
		return true
	}
	return isScalar(t.Kind())
}

func nop() {}

const maxDepth = 64

// snap snapshots the addressable value v and returns the function that
// rewinds it in place.
func snap(v reflect.Value, seen map[seenKey]bool, depth int) func() {
	v = writable(v)
	if !v.CanSet() || depth > maxDepth {
		return nop
	}
	t := v.Type()
	if flat(t) {
		saved := reflect.New(t).Elem()
		saved.Set(v)
		return func() { v.Set(saved) }
	}
	switch v.Kind() {
	case reflect.Ptr:
		p := reflect.New(t).Elem()
		p.Set(v)
		if p.IsNil() {
			return func() { v.Set(p) }
		}
		key := seenKey{p.UnsafePointer(), t, 0}
		if seen[key] {
			return func() { v.Set(p) }
		}
		seen[key] = true
		inner := snap(p.Elem(), seen, depth+1)
		return func() { v.Set(p); inner() }
	case reflect.Interface:
		saved := reflect.New(t).Elem()
		saved.Set(v)
		if saved.IsNil() {
			return func() { v.Set(saved) }
		}
		inner := snapDyn(saved.Elem(), seen, depth+1)
		return func() { v.Set(saved); inner() }
	case reflect.Map:
		m := reflect.New(t).Elem()
		m.Set(v)
		if m.IsNil() {
			return func() { v.Set(m) }
		}
		inner := snapMap(m, seen, depth+1)
		return func() { v.Set(m); inner() }
	case reflect.Slice:
		s := reflect.New(t).Elem()
		s.Set(v)
		if s.IsNil() {
			return func() { v.Set(s) }
		}
		inner := snapSlice(s, seen, depth+1)
		return func() { v.Set(s); inner() }
	case reflect.Array:
		var inners []func()
		for i := 0; i < v.Len(); i++ {
			inners = append(inners, snap(v.Index(i), seen, depth+1))
		}
		return func() {
			for _, f := range inners {
				f()
			}
		}
	case reflect.Struct:
		var inners []func()
		for i := 0; i < v.NumField(); i++ {
			inners = append(inners, snap(v.Field(i), seen, depth+1))
		}
		return func() {
			for _, f := range inners {
				f()
			}
		}
	}
	return nop
}

// snapDyn handles the (non-addressable) dynamic value of an interface or a
// map element: what it refers to is rewound in place.
func snapDyn(d reflect.Value, seen map[seenKey]bool, depth int) func() {
	switch d.Kind() {
	case reflect.Ptr:
		if d.IsNil() {
			return nop
		}
		key := seenKey{d.UnsafePointer(), d.Type(), 0}
		if seen[key] {
			return nop
		}
		seen[key] = true
		return snap(d.Elem(), seen, depth)
	case reflect.Map:
		if d.IsNil() {
			return nop
		}
		return snapMap(d, seen, depth)
	case reflect.Slice:
		if d.IsNil() {
			return nop
		}
		return snapSlice(d, seen, depth)
	}
	return nop
}

func snapMap(m reflect.Value, seen map[seenKey]bool, depth int) func() {
	key := seenKey{m.UnsafePointer(), m.Type(), 0}
	if seen[key] {
		return nop
	}
	seen[key] = true
	type entry struct {
		k, v  reflect.Value
		inner func()
	}
	var entries []entry
	it := m.MapRange()
	for it.Next() {
		k := reflect.New(m.Type().Key()).Elem()
		k.Set(it.Key())
		val := reflect.New(m.Type().Elem()).Elem()
		val.Set(it.Value())
		entries = append(entries, entry{k, val, snap(val, seen, depth+1)})
	}
	return func() {
		m.Clear()
		if MapShrink != nil {
			MapShrink(m.UnsafePointer())
		}
		for _, e := range entries {
			e.inner()
			m.SetMapIndex(e.k, e.v)
		}
	}
}

func snapSlice(s reflect.Value, seen map[seenKey]bool, depth int) func() {
	if s.Cap() == 0 {
		return nop
	}
	full := s.Slice(0, s.Cap())
	key := seenKey{full.UnsafePointer(), s.Type(), full.Len()}
	if seen[key] {
		return nop
	}
	seen[key] = true
	if flat(s.Type().Elem()) {
		saved := reflect.MakeSlice(s.Type(), full.Len(), full.Len())
		reflect.Copy(saved, full)
		return func() { reflect.Copy(full, saved) }
	}
	var inners []func()
	for i := 0; i < full.Len(); i++ {
		inners = append(inners, snap(full.Index(i), seen, depth+1))
	}
	return func() {
		for _, f := range inners {
			f()
		}
	}
}
