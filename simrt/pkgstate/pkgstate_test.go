package pkgstate

import (
	"errors"
	"sync"
	"testing"
)

type info struct {
	size int
	mk   func() interface{}
}

type cache struct {
	mu   sync.Mutex
	m    map[string][]byte
	once sync.Once
	next *cache
}

var (
	reg     = map[bool]map[byte]info{true: {1: {size: 2}}, false: {}}
	flags   [4]bool
	errX    = errors.New("x")
	tasks   = []func() int{func() int { return 1 }, func() int { return 2 }, func() int { return 3 }}
	shared  = &cache{m: map[string][]byte{"a": {1, 2, 3}}}
	table   = []int{1, 2, 3, 4}
	alias   = table[:2]
	nilMap  map[string]int
	anyV    interface{} = &cache{m: map[string][]byte{}}
	counter int
)

func TestRestore(t *testing.T) {
	Register("t", []Var{{"reg", &reg}, {"flags", &flags}, {"errX", &errX}, {"tasks", &tasks}, {"shared", &shared},
		{"table", &table}, {"alias", &alias}, {"nilMap", &nilMap}, {"anyV", &anyV}, {"counter", &counter}})
	regTrue := reg[true]
	e0 := errX
	sh := shared
	// mutate everything
	reg[true][9] = info{size: 4}
	delete(reg[true], 1)
	reg[false] = map[byte]info{3: {}}
	flags[2] = true
	errX = errors.New("y")
	tasks = append(tasks[:0], tasks[1:]...)
	shared.m["b"] = []byte{9}
	shared.m["a"][0] = 77
	shared.mu.Lock()
	shared.once.Do(func() {})
	shared.next = &cache{}
	shared = &cache{}
	alias = append(alias, 99) // writes table[2]
	nilMap = map[string]int{"z": 1}
	anyV.(*cache).m["q"] = nil
	anyV = 5
	counter = 7

	Restore()

	if len(reg[true]) != 1 || reg[true][1].size != 2 || len(reg[false]) != 0 {
		t.Fatalf("reg: %v", reg)
	}
	regTrue[5] = info{}
	if _, ok := reg[true][5]; !ok {
		t.Fatal("inner map lost its identity")
	}
	if flags != [4]bool{} || errX != e0 || counter != 0 || nilMap != nil {
		t.Fatal("scalars")
	}
	if len(tasks) != 3 || tasks[0]() != 1 || tasks[1]() != 2 || tasks[2]() != 3 {
		t.Fatal("tasks")
	}
	if shared != sh || len(shared.m) != 1 || shared.m["a"][0] != 1 || shared.next != nil {
		t.Fatalf("shared %+v", shared.m)
	}
	if !shared.mu.TryLock() {
		t.Fatal("mutex still locked")
	}
	shared.mu.Unlock()
	ran := false
	shared.once.Do(func() { ran = true })
	if !ran {
		t.Fatal("once not rewound")
	}
	if table[2] != 3 || len(alias) != 2 {
		t.Fatal("table/alias")
	}
	if c, ok := anyV.(*cache); !ok || len(c.m) != 0 {
		t.Fatal("anyV")
	}
}
