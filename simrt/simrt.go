// Package simrt is the deterministic scheduler core of the simulator.
//
// Design rules (DESIGN.md §3.1, §3.2):
//   - exactly one task (goroutine) runs at a time; who runs next is decided
//     only here, from the choice tape;
//   - every function that touches scheduler state is //go:norace and calls
//     nothing instrumented, so the hand-off creates NO happens-before edge in
//     the race detector's model: ThreadSanitizer sees only the synchronisation
//     the library under test performs itself;
//   - the process runs with GOMAXPROCS=1, parking is a Gosched spin.
//
// This is the only package the rewritten /repo sources import.
package simrt

import "runtime"

const (
	MaxTasks    = 256
	TapeCap     = 1 << 20
	MaxSites    = 1 << 14
	MaxCounters = 256
	MaxViol     = 64
	TraceCap    = 4096
	pairSetCap  = 1 << 18 // open addressing, power of two
	MaxTimers   = 1024
)

type vtimer struct {
	at     int64
	seq    int64
	period int64
	live   bool
	fire   func()
}

// task states
const (
	tUnused = iota
	tRunnable
	tDone
)

// scheduling policies
const (
	PolRandom = iota
	PolPCT
	PolRunToBlock
	numPolicies
)

type Violation struct {
	Sig string
	Msg string
}

type TraceEv struct {
	Seq  int64
	Task int32
	Code int32
	A, B uint64
}

var (
	active   bool
	current  int
	ntasks   int
	state    [MaxTasks]int
	idle     [MaxTasks]bool
	waitKey  [MaxTasks]int32
	wakeAt   [MaxTasks]int64
	lastSite [MaxTasks]int32
	prio     [MaxTasks]int
	now      int64
	seq      int64
	dead     bool

	// tasks blocked in a REAL blocking operation (see realBlock)
	blockedReal  [MaxTasks]bool
	nBlockedReal int
	goids        [MaxTasks]uint64
	parentOf     [MaxTasks]int // task that started this one (-1: a task of the world)
	realDeadlock bool
	nInitial     int  // tasks of the world (the rest were started by the library's go statements)
	leaked       bool // the run ended with library goroutines still blocked

	// virtual timers of the library under test (package simtime): fired when
	// the virtual clock reaches them
	timers     [MaxTimers]vtimer
	nTimerLive int
	timerSeq   int64
	opCount    int64 // Progress() calls of this run (time-passing draws)
	timeMode   int   // how much virtual time passes between operations (per run)

	steps    int64
	stepBase int64 // steps at the last Progress() call: the cap is per operation
	switches int64
	preempts int64 // switches at library yield sites (not at seams/pauses)
	stepCap  int64 = 400000

	// tape
	tape        [TapeCap]uint64
	tapeLen     int
	explicit    []uint64
	useExplicit bool
	rng         uint64
	seedVal     uint64

	// policy
	policy     int
	switchDen  uint64
	armLevel   uint64
	salt       uint64
	changeAt   [4]int64
	nChange    int
	noPreempt  bool  // set when step budget for preemption is exhausted
	forceRTB   bool  // world asked for run-to-block (sequential worlds)
	preemptCap int64 = 200000

	// bookkeeping
	nviol    int
	viol     [MaxViol]Violation
	counters [MaxCounters]int64
	cnames   [MaxCounters]string
	ncnames  int

	traceHash uint64
	traceN    int64
	traceBuf  [TraceCap]TraceEv

	siteHit  [MaxSites]uint32 // cumulative over the process
	pairSet  [pairSetCap]uint32
	pairN    int
	runPairN int // new pairs discovered in this run
)

// StepCapPanic is the value Yield panics with when a run exceeds the step cap
// (a library call that does not terminate).
type StepCapPanic struct{ Site int }

//go:norace
func mix(x uint64) uint64 {
	x += 0x9e3779b97f4a7c15
	x = (x ^ (x >> 30)) * 0xbf58476d1ce4e5b9
	x = (x ^ (x >> 27)) * 0x94d049bb133111eb
	return x ^ (x >> 31)
}

//go:norace
func nextRaw() uint64 {
	var v uint64
	if useExplicit {
		if tapeLen < len(explicit) {
			v = explicit[tapeLen]
		} else {
			v = 0
		}
	} else {
		rng += 0x9e3779b97f4a7c15
		z := rng
		z = (z ^ (z >> 30)) * 0xbf58476d1ce4e5b9
		z = (z ^ (z >> 27)) * 0x94d049bb133111eb
		v = z ^ (z >> 31)
	}
	if tapeLen < TapeCap {
		tape[tapeLen] = v
	}
	tapeLen++
	return v
}

// Reset prepares a new run. If explicitTape is non-nil the run consumes that
// tape (entries beyond its end read as 0), otherwise splitmix64(seed).
//
//go:norace
func Reset(seed uint64, explicitTape []uint64) {
	active = false
	current = -1
	ntasks = 0
	for i := 0; i < MaxTasks; i++ {
		state[i] = tUnused
		idle[i] = false
		waitKey[i] = 0
		wakeAt[i] = 0
		lastSite[i] = -1
		prio[i] = 0
	}
	now = 0
	seq = 0
	dead = false
	for i := 0; i < MaxTasks; i++ {
		blockedReal[i] = false
		goids[i] = 0
		parentOf[i] = -1
	}
	nBlockedReal = 0
	for i := 0; i < MaxTimers; i++ {
		timers[i] = vtimer{}
	}
	nTimerLive = 0
	slotsExhausted = false
	timerSeq = 0
	opCount = 0
	timeMode = int(mix(seed^0x74696d65) % 4)
	realDeadlock = false
	nInitial = 0
	leaked = false
	steps = 0
	stepBase = 0
	switches = 0
	preempts = 0
	noPreempt = false
	forceRTB = false
	tapeLen = 0
	seedVal = seed
	rng = seed
	explicit = explicitTape
	useExplicit = explicitTape != nil
	nviol = 0
	for i := 0; i < MaxCounters; i++ {
		counters[i] = 0
	}
	traceHash = 0xcbf29ce484222325
	traceN = 0
	runPairN = 0
	policy = PolRandom
	switchDen = 10
	armLevel = 4
	salt = 0
	nChange = 0
}

// Choose returns the next tape value modulo n (n<=1 returns 0 but still
// consumes one entry, so that shape changes do not shift later choices more
// than necessary).
//
//go:norace
func Choose(n int) int {
	v := nextRaw()
	if n <= 1 {
		return 0
	}
	return int(v % uint64(n))
}

// Raw returns the next raw tape value (used as sub-seed for bulk data).
//
//go:norace
func Raw() uint64 { return nextRaw() }

// Begin draws the scheduling policy and activates the scheduler for n tasks.
// Called on the main goroutine after the world has been set up and before the
// task goroutines are started.
//
//go:norace
func Begin(n int) {
	if n > MaxTasks {
		n = MaxTasks
	}
	ntasks = n
	nInitial = n
	for i := 0; i < n; i++ {
		state[i] = tRunnable
	}
	policy = Choose(numPolicies)
	switch Choose(3) {
	case 0:
		switchDen = 10
	case 1:
		switchDen = 50
	case 2:
		switchDen = 2
	}
	switch Choose(3) {
	case 0:
		armLevel = 4
	case 1:
		armLevel = 2
	case 2:
		armLevel = 1
	}
	salt = Raw()
	if forceRTB {
		policy = PolRunToBlock
	}
	if policy == PolPCT {
		// distinct priorities: a random permutation
		for i := 0; i < n; i++ {
			prio[i] = i + 10
		}
		for i := n - 1; i > 0; i-- {
			j := Choose(i + 1)
			prio[i], prio[j] = prio[j], prio[i]
		}
		nChange = 1 + Choose(3)
		for i := 0; i < nChange; i++ {
			changeAt[i] = int64(Choose(4000))
		}
	}
	current = 0
	if n > 0 {
		current = Choose(n)
	}
	active = n > 0
}

// ForceRunToBlock makes the next Begin use the run-to-block policy whatever
// the tape says (worlds whose parties share harness state and synchronise at
// their blocking points only). Call during world build.
//
//go:norace
func ForceRunToBlock() { forceRTB = true }

// TaskEnter parks the calling goroutine until it is scheduled for the first
// time.
//
//go:norace
func TaskEnter(id int) {
	goids[id] = goid()
	waitTurn(id)
}

// ---- real blocking ---------------------------------------------------------
//
// The scheduler knows two ways a task waits: the library locks the
// instrumenter rewrote (Acquire) and the harness's own PauseOn. Anything else
// that blocks for real - sync.Once.Do while another task is parked inside the
// function, a WaitGroup, a channel, a mutex taken in a form the instrumenter
// does not recognise - would leave the blocked goroutine "current" for ever
// while the task that could release it spins waiting for its turn.
//
// Detection: the process has one P and every task but the current one spins
// through runtime.Gosched() in waitTurn. A runnable goroutine gets the P
// within one round of the run queue; a current task that makes no step while
// a parked task goes through blockSpins rounds is therefore not runnable: it
// is blocked outside the simulator. It is then marked blockedReal and another
// task is chosen (a tape draw - everything else is frozen at that moment, so
// the position of the draw is a function of the seed). When the operation
// returns, the goroutine runs to its next scheduler entry point, recognises
// itself by goroutine id, and parks like any other task. Every scheduling
// decision made while such a task exists first "settles": it lets the Go
// scheduler run a few rounds so that a task whose resource has been released
// arrives before the choice is made, not at a moment the Go scheduler picks.

const (
	blockSpins   = 40
	settleRounds = 6
)

var cRealBlock = RegisterCounter("task_blocked_outside_the_simulator")

// goid returns the id of the calling goroutine (slow: parses the stack
// header; used when a task starts and while a blockedReal task exists).
//
//go:norace
func goid() uint64 {
	var buf [64]byte
	n := runtime.Stack(buf[:], false)
	// "goroutine 123 ["
	var id uint64
	for i := len("goroutine "); i < n && buf[i] >= '0' && buf[i] <= '9'; i++ {
		id = id*10 + uint64(buf[i]-'0')
	}
	return id
}

// waitTurn parks the calling task until it is current.
//
//go:norace
func waitTurn(me int) {
	spins := 0
	lastSteps, lastCur := steps, current
	for current != me {
		runtime.Gosched()
		if steps != lastSteps || current != lastCur {
			lastSteps, lastCur, spins = steps, current, 0
			continue
		}
		spins++
		if spins >= blockSpins {
			spins = 0
			realBlock()
		}
	}
}

// realBlock is called by a parked task that saw no progress: the current
// task is blocked outside the simulator.
//
//go:norace
func realBlock() {
	b := current
	if !active || b < 0 || b >= ntasks || blockedReal[b] || state[b] != tRunnable {
		return
	}
	blockedReal[b] = true
	nBlockedReal++
	count(cRealBlock)
	// (nobody is excluded: b itself is not eligible while it is blocked, and
	// if a virtual timer releases it during the clock jump it may be chosen)
	next := pickAny(-1)
	if next < 0 && worldDone() {
		endWithLeftovers()
		return
	}
	if next < 0 {
		// nobody can run and nobody can release b: a real deadlock. Tasks that
		// wait inside the simulator are released to unwind; b is abandoned.
		realDeadlock = true
		dead = true
		for i := 0; i < ntasks; i++ {
			idle[i] = false
		}
		next = pickAny(b)
		if next < 0 {
			active = false
			current = -1
			return
		}
	}
	switches++
	current = next
}

// worldDone reports whether every task of the world (not counting the
// goroutines the library started itself) has finished.
//
//go:norace
func worldDone() bool {
	for i := 0; i < nInitial && i < ntasks; i++ {
		if state[i] != tDone {
			return false
		}
	}
	return true
}

// endWithLeftovers ends the run although library goroutines are still
// blocked; they are abandoned (the worker process ends after this run).
//
//go:norace
func endWithLeftovers() {
	for i := nInitial; i < ntasks; i++ {
		if state[i] != tDone {
			leaked = true
		}
	}
	active = false
	current = -1
}

// Leaked reports whether the run ended with goroutines of the library still
// blocked (abandoned).
//
//go:norace
func Leaked() bool { return leaked }

// Abandoned is the number of tasks whose goroutines will never finish
// (blocked outside the simulator, or left over at the end of the run).
//
//go:norace
func Abandoned() int {
	n := 0
	for i := 0; i < ntasks; i++ {
		if state[i] != tDone && (blockedReal[i] || (leaked && i >= nInitial)) {
			n++
		}
	}
	return n
}

// settle lets tasks whose real blocking operation has returned arrive.
//
//go:norace
func settle() {
	if nBlockedReal == 0 {
		return
	}
	saved := current
	current = -2 // nobody: whoever arrives parks
	for r := 0; r < settleRounds; r++ {
		before := nBlockedReal
		runtime.Gosched()
		if nBlockedReal != before {
			r = -1
		}
	}
	current = saved
}

// arrive is called at every scheduler entry point while a blockedReal task
// exists: if the caller is such a task, its blocking operation has returned
// and it parks until it is scheduled.
//
//go:norace
func arrive() {
	g := goid()
	for i := 0; i < ntasks; i++ {
		if blockedReal[i] && goids[i] == g {
			blockedReal[i] = false
			nBlockedReal--
			waitTurn(i)
			return
		}
	}
}

// SpawnHook starts the goroutine of a task created by Go (set by sim.RunOne:
// the goroutine must be known to the run's wait group and panic handler).
var SpawnHook func(id int, fn func())

var cGoTask = RegisterCounter("task_started_by_the_library")
var cSlotUse = RegisterCounter("task_slot_assigned")

var slotsExhausted bool

// SlotsExhausted reports that the library had more live goroutines than the
// simulator has task slots (the run is not a simulation any more).
//
//go:norace
func SlotsExhausted() bool { return slotsExhausted }

// Go replaces the go statement in the rewritten sources: inside a simulation
// the new goroutine becomes a task of the scheduler; outside it is a plain
// goroutine.
//
//go:norace
func Go(fn func()) { goFrom(current, fn, true) }

// Parent returns the task that started task id with a go statement (or whose
// timer did), -1 for the tasks of the world.
//
//go:norace
func Parent(id int) int {
	if id < 0 || id >= MaxTasks {
		return -1
	}
	return parentOf[id]
}

// GoFrom is Go with an explicit parent (timers: the task that set the timer,
// not the one that happened to advance the clock).
//
//go:norace
func GoFrom(parent int, fn func()) { goFrom(parent, fn, false) }

var cSlotWait = RegisterCounter("go_statement_waited_for_a_task_slot")

//go:norace
func freeSlot() int {
	if ntasks < MaxTasks {
		return -1
	}
	for i := nInitial; i < ntasks; i++ {
		if state[i] == tDone && !blockedReal[i] {
			return i
		}
	}
	return -1
}

//go:norace
func goFrom(parent int, fn func(), mayWait bool) {
	if !active || SpawnHook == nil {
		go fn()
		return
	}
	if nBlockedReal > 0 {
		arrive()
	}
	// a slot: a new one, or that of a goroutine of the library that has
	// finished (a codec that starts four workers per call needs thousands of
	// goroutines per run, a handful at a time)
	id := -1
	if ntasks < MaxTasks {
		id = ntasks
		ntasks++
	} else {
		for i := nInitial; i < ntasks; i++ {
			if state[i] == tDone && !blockedReal[i] {
				id = i
				break
			}
		}
	}
	if id < 0 && mayWait && current >= 0 {
		// every slot is taken by a live goroutine: the go statement is delayed
		// until one of them has finished (a schedule in which the spawner was
		// not running for a while); only if nobody can finish without the new
		// goroutine is the limit of the machinery reached
		for tries := 0; id < 0 && tries < 4*MaxTasks; tries++ {
			count(cSlotWait)
			if !PauseOn(0, 0) {
				break
			}
			id = freeSlot()
		}
	}
	if id < 0 {
		// more live goroutines than the simulator has slots for: a limit of the
		// machinery, reported as such (never a verdict)
		slotsExhausted = true
		go fn()
		return
	}
	count(cSlotUse)
	state[id] = tRunnable
	idle[id] = false
	waitKey[id] = 0
	wakeAt[id] = 0
	lastSite[id] = -1
	prio[id] = 5 - id // below the initial tasks under PCT
	blockedReal[id] = false
	parentOf[id] = parent
	count(cGoTask)
	SpawnHook(id, fn)
}

// RealDeadlock reports whether the run ended with a task blocked outside the
// simulator that nothing can release (its goroutine is abandoned).
//
//go:norace
func RealDeadlock() bool { return realDeadlock }

// BlockedRealTask returns the id of a task that is still blocked outside
// the simulator (-1 if none).
//
//go:norace
func BlockedRealTask() int {
	for i := 0; i < ntasks; i++ {
		if blockedReal[i] {
			return i
		}
	}
	return -1
}

// GoID returns the goroutine id recorded for a task.
//
//go:norace
func GoID(task int) uint64 { return goids[task] }

// WaitEnd parks the main goroutine until the run is over.
//
//go:norace
func WaitEnd() {
	spins := 0
	lastSteps, lastCur := steps, current
	for active {
		runtime.Gosched()
		if steps != lastSteps || current != lastCur {
			lastSteps, lastCur, spins = steps, current, 0
			continue
		}
		spins++
		if spins >= blockSpins {
			spins = 0
			realBlock()
		}
	}
}

// TaskExit marks the task done and hands control to another task.
//
//go:norace
func TaskExit(id int) {
	// a goroutine whose real blocking operation has returned and that then
	// runs to its end without passing a yield point (a worker leaving its
	// `for range ch` loop when the channel is closed) arrives here: it parks
	// like any other task before it may touch the schedule
	if nBlockedReal > 0 {
		arrive()
	}
	state[id] = tDone
	idle[id] = false
	clearIdleAll()
	next := pickAny(id)
	if next < 0 && worldDone() {
		// every task of the world has finished; goroutines the library
		// started and that are still waiting (a worker pool waiting for
		// work) are left behind - not a defect of the run
		endWithLeftovers()
		return
	}
	if next < 0 && nBlockedReal > 0 {
		realDeadlock = true
	}
	if next < 0 {
		// nobody is eligible: either everybody is done, or the remaining
		// tasks wait for something that can no longer happen (deadlock):
		// release them so that they unwind (PauseOn returns false)
		for i := 0; i < ntasks; i++ {
			if state[i] == tRunnable {
				dead = true
				break
			}
		}
		if dead {
			for i := 0; i < ntasks; i++ {
				idle[i] = false
			}
			next = pickAny(id)
		}
		if next < 0 {
			active = false
			current = -1
			return
		}
	}
	switches++
	current = next
}

//go:norace
func clearIdleAll() {
	for i := 0; i < ntasks; i++ {
		if idle[i] && waitKey[i] == 0 {
			idle[i] = false
		}
	}
}

// eligible reports whether task i can be scheduled now.
//
//go:norace
func eligible(i int) bool {
	if state[i] != tRunnable || blockedReal[i] {
		return false
	}
	if idle[i] {
		if wakeAt[i] > 0 && now >= wakeAt[i] {
			return true
		}
		return false
	}
	return true
}

// pickAny chooses an eligible task other than `me` (by the tape; by priority
// under PCT). If none is eligible it advances the virtual clock to the next
// timer; if there is none either it returns -1.
//
//go:norace
func pickAny(me int) int { return pickAnyD(me, 0) }

// pickAnyD is pickAny for a caller that itself waits until selfDeadline
// (0 = none); it returns -2 when the caller's own deadline is the next event.
//
//go:norace
func pickAnyD(me int, selfDeadline int64) int {
	settle()
	for {
		if nTimerLive > 0 && fireDue() {
			settle()
		}
		var cand [MaxTasks]int
		n := 0
		for i := 0; i < ntasks; i++ {
			if i != me && eligible(i) {
				cand[n] = i
				n++
			}
		}
		if n > 0 {
			if policy == PolPCT {
				best := cand[0]
				for k := 1; k < n; k++ {
					if prio[cand[k]] > prio[best] {
						best = cand[k]
					}
				}
				return best
			}
			return cand[Choose(n)]
		}
		// nobody eligible: jump the clock to the next event (a task's deadline
		// or a virtual timer of the library)
		var min int64 = -1
		for i := 0; i < ntasks; i++ {
			if i != me && state[i] == tRunnable && idle[i] && wakeAt[i] > now {
				if min < 0 || wakeAt[i] < min {
					min = wakeAt[i]
				}
			}
		}
		// once every task of the world has finished the clock stops: timers and
		// sleeping goroutines the library left behind (a ticker, a background
		// refresher) must not keep the run alive
		if nTimerLive > 0 && !(selfDeadline == 0 && worldDoneExcept(me)) {
			if t := nextTimerAt(); t >= 0 && (min < 0 || t < min) {
				min = t
			}
		}
		if selfDeadline > 0 && (min < 0 || selfDeadline <= min) {
			if selfDeadline > now {
				now = selfDeadline
			}
			return -2
		}
		if min < 0 {
			return -1
		}
		if selfDeadline == 0 && worldDoneExcept(me) {
			return -1
		}
		if min > now {
			now = min
		}
	}
}

// worldDoneExcept: every task of the world other than `me` has finished and
// `me` is not a task of the world that still runs (me is done, or was started
// by the library).
//
//go:norace
func worldDoneExcept(me int) bool {
	for i := 0; i < nInitial && i < ntasks; i++ {
		if state[i] != tDone {
			return false
		}
	}
	return true
}

// ---- virtual timers -------------------------------------------------------

// AddTimer registers a timer that fires (calls fire) when the virtual clock
// reaches now+d; period > 0 re-arms it. fire must not block and must not call
// into the scheduler except through Go. Returns -1 when the table is full or
// no simulation is active.
//
//go:norace
func AddTimer(d, period int64, fire func()) int {
	if !active {
		return -1
	}
	if d < 0 {
		d = 0
	}
	for i := 0; i < MaxTimers; i++ {
		if !timers[i].live {
			timerSeq++
			timers[i] = vtimer{at: now + d, seq: timerSeq, period: period, live: true, fire: fire}
			nTimerLive++
			count(cTimerSet)
			return i
		}
	}
	return -1
}

// StopTimer cancels a timer; it reports whether the timer was still pending.
//
//go:norace
func StopTimer(id int, seq int64) bool {
	if id < 0 || id >= MaxTimers || !timers[id].live || (seq != 0 && timers[id].seq != seq) {
		return false
	}
	timers[id].live = false
	timers[id].fire = nil
	nTimerLive--
	return true
}

// TimerSeq returns the generation of a timer slot (so that a Stop after the
// slot was re-used does not cancel somebody else's timer).
//
//go:norace
func TimerSeq(id int) int64 {
	if id < 0 || id >= MaxTimers {
		return 0
	}
	return timers[id].seq
}

//go:norace
func nextTimerAt() int64 {
	var min int64 = -1
	for i := 0; i < MaxTimers; i++ {
		if timers[i].live && (min < 0 || timers[i].at < min) {
			min = timers[i].at
		}
	}
	return min
}

// fireDue fires every timer whose time has come, in (time, creation) order.
//
//go:norace
func fireDue() bool {
	fired := false
	for {
		best := -1
		for i := 0; i < MaxTimers; i++ {
			if timers[i].live && timers[i].at <= now {
				if best < 0 || timers[i].at < timers[best].at || (timers[i].at == timers[best].at && timers[i].seq < timers[best].seq) {
					best = i
				}
			}
		}
		if best < 0 {
			return fired
		}
		f := timers[best].fire
		if timers[best].period > 0 {
			timers[best].at += timers[best].period
			if timers[best].at <= now {
				// a ticker drops ticks for slow receivers
				timers[best].at = now + timers[best].period
			}
		} else {
			timers[best].live = false
			timers[best].fire = nil
			nTimerLive--
		}
		count(cTimerFired)
		fired = true
		if f != nil {
			f()
		}
	}
}

var (
	cTimerSet   = RegisterCounter("library_timer_set")
	cTimerFired = RegisterCounter("library_timer_fired")
	cTimePassed = RegisterCounter("time_passed_between_operations")
)

// OpTimeDraw is called once per operation of a world: it returns how much
// virtual time (ns) should pass before the operation. A function of the seed
// and the operation count only (no tape draw); one run in four lets no time
// pass at all, the others mostly none, sometimes milliseconds ... days.
//
//go:norace
func OpTimeDraw() int64 {
	opCount++
	if !active || timeMode == 0 || now > 3e17 {
		// (no time passes in one run out of four; and never more than about
		// ten years in all: the clock is an int64 of nanoseconds)
		return 0
	}
	v := mix(seedVal ^ uint64(opCount)*0x9e3779b97f4a7c15 ^ 0x6f70)
	if v%6 != 0 {
		return 0
	}
	small := [...]int64{1e3, 1e6, 20e6, 1e9, 3e9}
	large := [...]int64{61e9, 601e9, 3601e9, 7 * 3600e9, 25 * 3600e9, 31 * 24 * 3600e9}
	k := (v >> 8)
	switch timeMode {
	case 1:
		return small[k%uint64(len(small))]
	case 2:
		return large[k%uint64(len(large))]
	default:
		if k%2 == 0 {
			return small[(k>>1)%uint64(len(small))]
		}
		return large[(k>>1)%uint64(len(large))]
	}
}

//go:norace
func CountTimePassed() { count(cTimePassed) }

// ForcedRunToBlock reports whether the world asked for the sequential policy.
//
//go:norace
func ForcedRunToBlock() bool { return forceRTB }

//go:norace
func armed(site int) bool {
	if armLevel >= 4 {
		return true
	}
	return (mix(uint64(site)^salt) & 3) < armLevel
}

//go:norace
func recordPair(a, b int32) {
	if a < 0 || b < 0 {
		return
	}
	key := uint32(a)<<14 | uint32(b)&0x3fff
	key++ // 0 is the empty marker
	h := uint32(mix(uint64(key))) & (pairSetCap - 1)
	for k := 0; k < 64; k++ {
		s := pairSet[(h+uint32(k))&(pairSetCap-1)]
		if s == key {
			return
		}
		if s == 0 {
			pairSet[(h+uint32(k))&(pairSetCap-1)] = key
			pairN++
			runPairN++
			return
		}
	}
}

//go:norace
func switchTo(me, next int) {
	switches++
	current = next
	waitTurn(me)
}

// Yield is the preemption point inserted before every statement of the
// library under test. It is a no-op outside a simulation.
//
//go:norace
func Yield(site int) {
	if !active {
		return
	}
	if nBlockedReal > 0 {
		arrive()
	}
	me := current
	if me < 0 {
		return // a goroutine the simulator does not schedule (slots exhausted)
	}
	steps++
	if site >= 0 && site < MaxSites {
		siteHit[site]++
	}
	if steps-stepBase > stepCap {
		stepBase = steps // the other tasks get a fresh budget
		panic(StepCapPanic{Site: site})
	}
	prev := lastSite[me]
	lastSite[me] = int32(site)
	_ = prev
	// progress by this task wakes tasks that wait for "any progress"
	// (lock waiters)
	clearIdleAll()
	if ntasks < 2 || noPreempt {
		return
	}
	if steps > preemptCap {
		noPreempt = true
		return
	}
	switch policy {
	case PolRunToBlock:
		return
	case PolPCT:
		settle()
		for i := 0; i < nChange; i++ {
			if changeAt[i] == steps {
				prio[me] = -int(steps) // lowest so far
			}
		}
		best := me
		for i := 0; i < ntasks; i++ {
			if i != me && eligible(i) && prio[i] > prio[best] {
				best = i
			}
		}
		if best != me {
			preempts++
			recordPair(int32(site), lastSite[best])
			switchTo(me, best)
		}
		return
	default:
		if !armed(site) {
			return
		}
		v := nextRaw()
		if v%switchDen != switchDen-1 {
			return
		}
		next := pickAny(me)
		if next < 0 {
			return
		}
		preempts++
		recordPair(int32(site), lastSite[next])
		switchTo(me, next)
	}
}

// Seam is a yield point owned by the harness (transport, storage, pool …):
// always armed, switches with probability 1/2 under every policy except that
// PCT follows priorities.
//
//go:norace
func Seam(code int) {
	if !active {
		return
	}
	if nBlockedReal > 0 {
		arrive()
	}
	me := current
	if me < 0 {
		return
	}
	steps++
	if steps-stepBase > stepCap {
		stepBase = steps
		panic(StepCapPanic{Site: -code})
	}
	clearIdleAll()
	if ntasks < 2 {
		return
	}
	if policy == PolPCT {
		settle()
		best := me
		for i := 0; i < ntasks; i++ {
			if i != me && eligible(i) && prio[i] > prio[best] {
				best = i
			}
		}
		if best != me {
			switchTo(me, best)
		}
		return
	}
	v := nextRaw()
	if v%2 == 0 {
		return
	}
	next := pickAny(me)
	if next < 0 {
		return
	}
	switchTo(me, next)
}

// PauseOn blocks the calling task until Notify(key) is called (key>0), any
// other task makes progress (key==0), or the virtual clock reaches deadline
// (deadline>0). Spurious returns are allowed; callers re-check their
// condition. It returns false if the simulation is dead (deadlock): the
// caller must unwind.
//
//go:norace
func PauseOn(key int32, deadline int64) bool {
	if !active || dead {
		return false
	}
	if nBlockedReal > 0 {
		arrive()
	}
	me := current
	if me < 0 {
		runtime.Gosched() // not a task (slots exhausted): the run is not judged
		return true
	}
	steps++
	if steps-stepBase > stepCap {
		stepBase = steps
		panic(StepCapPanic{Site: -1})
	}
	idle[me] = true
	waitKey[me] = key
	wakeAt[me] = deadline
	next := pickAnyD(me, deadline)
	if next == -2 {
		idle[me] = false
		wakeAt[me] = 0
		waitKey[me] = 0
		return true
	}
	if next < 0 {
		dead = true
		idle[me] = false
		// release everybody: they will see dead
		for i := 0; i < ntasks; i++ {
			idle[i] = false
		}
		return false
	}
	switchTo(me, next)
	idle[me] = false
	wakeAt[me] = 0
	waitKey[me] = 0
	return !dead
}

// Notify wakes the tasks waiting on key.
//
//go:norace
func Notify(key int32) {
	for i := 0; i < ntasks; i++ {
		if idle[i] && waitKey[i] == key {
			idle[i] = false
		}
	}
}

// Sleep advances the calling task's virtual time by d.
//
//go:norace
func Sleep(d int64) bool {
	if !active {
		return true
	}
	until := now + d
	for now < until {
		if !PauseOn(-1, until) {
			return false
		}
	}
	return true
}

// Progress tells the scheduler that the calling world finished one
// operation: the step cap (non-termination detector) counts from here.
//
//go:norace
func Progress() { stepBase = steps }

// Tick returns the next global event sequence number (total order over all
// tasks of a run; used to stamp invoke/return events of recorded histories).
//
//go:norace
func Tick() int64 { seq++; return seq }

//go:norace
func Now() int64 { return now }

//go:norace
func Dead() bool { return dead }

//go:norace
func Active() bool { return active }

//go:norace
func Current() int { return current }

// Acquire replaces X.Lock()/X.RLock() in the rewritten sources: a try-lock
// loop that lets the scheduler run the lock holder.
func Acquire(try func() bool, site int) {
	Yield(site)
	for !try() {
		if !Active() {
			// outside a simulation (package init, set-up): real spin
			runtime.Gosched()
			continue
		}
		count(cLockWait)
		if !PauseOn(0, 0) {
			panic("simrt: deadlock while waiting for a library lock")
		}
	}
}

// ---- reporting (all norace: harness bookkeeping is invisible to TSan) ----

var cLockWait = RegisterCounter("lock_wait")

// RegisterCounter is called from package-level initialisers only.
func RegisterCounter(name string) int {
	for i := 0; i < ncnames; i++ {
		if cnames[i] == name {
			return i
		}
	}
	if ncnames >= MaxCounters {
		panic("simrt: too many counters")
	}
	cnames[ncnames] = name
	ncnames++
	return ncnames - 1
}

//go:norace
func count(i int) { counters[i]++ }

// Count increments a fault/probe counter of the current run.
//
//go:norace
func Count(i int) { counters[i]++ }

//go:norace
func CountN(i int, n int64) { counters[i] += n }

//go:norace
func CounterNames() []string { return cnames[:ncnames] }

//go:norace
func CounterValue(i int) int64 { return counters[i] }

// Report records a violation (first MaxViol distinct signatures per run).
//
//go:norace
func Report(sig, msg string) {
	for i := 0; i < nviol; i++ {
		if viol[i].Sig == sig {
			return
		}
	}
	if nviol < MaxViol {
		viol[nviol] = Violation{Sig: sig, Msg: msg}
		nviol++
	}
	Trace(9999, uint64(len(sig)), uint64(nviol))
}

//go:norace
func Violations() []Violation { return viol[:nviol] }

// Trace appends an event to the run trace and folds it into the trace hash.
//
//go:norace
func Trace(code int, a, b uint64) {
	h := traceHash
	h = (h ^ uint64(code)) * 0x100000001b3
	h = (h ^ uint64(current+1)) * 0x100000001b3
	h = (h ^ a) * 0x100000001b3
	h = (h ^ b) * 0x100000001b3
	traceHash = h
	if traceN < TraceCap {
		traceBuf[traceN] = TraceEv{Seq: steps, Task: int32(current), Code: int32(code), A: a, B: b}
	}
	traceN++
}

//go:norace
func TraceHash() uint64 { return traceHash }

//go:norace
func TraceEvents() []TraceEv {
	n := traceN
	if n > TraceCap {
		n = TraceCap
	}
	return traceBuf[:n]
}

//go:norace
func TraceLen() int64 { return traceN }

type Stats struct {
	Steps, Switches, Preempts int64
	TapeLen                   int
	Policy                    int
	SimTime                   int64
	NewPairs                  int
	Dead                      bool
}

//go:norace
func RunStats() Stats {
	return Stats{Steps: steps, Switches: switches, Preempts: preempts, TapeLen: tapeLen, Policy: policy, SimTime: now, NewPairs: runPairN, Dead: dead}
}

// TapeCopy returns the consumed prefix of the tape.
//
//go:norace
func TapeCopy() []uint64 {
	n := tapeLen
	if n > TapeCap {
		n = TapeCap
	}
	out := make([]uint64, n)
	for i := 0; i < n; i++ {
		out[i] = tape[i]
	}
	return out
}

//go:norace
func PairCount() int { return pairN }

// Pairs returns the (preempted-site, resumed-site) pairs seen by this process.
//
//go:norace
func Pairs() []uint32 {
	out := make([]uint32, 0, pairN)
	for i := 0; i < pairSetCap; i++ {
		if pairSet[i] != 0 {
			out = append(out, pairSet[i]-1)
		}
	}
	return out
}

// SitesHit returns the ids of all sites executed at least once.
//
//go:norace
func SitesHit() []int {
	var out []int
	for i := 0; i < MaxSites; i++ {
		if siteHit[i] != 0 {
			out = append(out, i)
		}
	}
	return out
}

// SiteHitCounts returns the cumulative execution count of every site (debugging aid).
//
//go:norace
func SiteHitCounts() []uint32 {
	out := make([]uint32, MaxSites)
	for i := 0; i < MaxSites; i++ {
		out[i] = siteHit[i]
	}
	return out
}

//go:norace
func SetStepCap(n int64) { stepCap = n }

// ---- queues for message passing between tasks ----
// The queue structure itself is harness bookkeeping (norace); the payload is
// published with a per-message atomic by package sim, which is what gives the
// consumer its happens-before edge.

const QCap = 1024

type Queue struct {
	buf        [QCap]interface{}
	head, tail int
	Key        int32
}

//go:norace
func (q *Queue) Push(v interface{}) bool {
	if q.tail-q.head >= QCap {
		return false
	}
	q.buf[q.tail%QCap] = v
	q.tail++
	Notify(q.Key)
	return true
}

//go:norace
func (q *Queue) Pop() (interface{}, bool) {
	if q.head == q.tail {
		return nil, false
	}
	v := q.buf[q.head%QCap]
	q.buf[q.head%QCap] = nil
	q.head++
	return v, true
}

//go:norace
func (q *Queue) Len() int { return q.tail - q.head }

//go:norace
func (q *Queue) ResetQ() {
	for i := range q.buf {
		q.buf[i] = nil
	}
	q.head, q.tail = 0, 0
}
