// Package simtime is the clock seam of the simulator: the instrumenter
// rewrites time.Now / Since / Until / Sleep / After / AfterFunc / NewTimer /
// NewTicker / Tick (and the types time.Timer / time.Ticker, and
// context.WithTimeout / WithDeadline) in the scratch copy of the library to
// this package. In a simulation worker (Virtual, set at link time) the
// library then reads the simulator's virtual clock and its timers fire when
// that clock reaches them; otherwise (the repository's own tests on the
// rewritten tree) everything falls through to package time.
package simtime

import (
	"context"
	"sync/atomic"
	"time"

	"verif/simrt"
)

// mode is set with -ldflags "-X verif/simrt/simtime.mode=virtual" in the
// worker build.
var mode = "real"

// Virtual reports whether the library's clock is the simulator's.
func Virtual() bool { return mode == "virtual" }

// Epoch is virtual time 0.
var Epoch = time.Date(2026, 3, 1, 12, 0, 0, 0, time.UTC)

var cNow = simrt.RegisterCounter("library_read_the_clock")

func Now() time.Time {
	if !Virtual() {
		return time.Now()
	}
	simrt.Count(cNow)
	return Epoch.Add(time.Duration(simrt.Now()))
}

func Since(t time.Time) time.Duration { return Now().Sub(t) }
func Until(t time.Time) time.Duration { return t.Sub(Now()) }

func Sleep(d time.Duration) {
	if !Virtual() || !simrt.Active() {
		if !Virtual() {
			time.Sleep(d)
		}
		return
	}
	if d <= 0 {
		simrt.Seam(90)
		return
	}
	simrt.Sleep(int64(d))
}

// Timer mirrors time.Timer.
type Timer struct {
	C    <-chan time.Time
	c    chan time.Time
	real *time.Timer
	id   int
	seq  int64
	pub  int32
	f    func()
}

func (t *Timer) arm(d time.Duration) {
	atomic.StoreInt32(&t.pub, 1)
	if t.f != nil {
		f := t.f
		owner := simrt.Current()
		t.id = simrt.AddTimer(int64(d), 0, func() {
			simrt.GoFrom(owner, func() {
				atomic.LoadInt32(&t.pub)
				f()
			})
		})
	} else {
		c := t.c
		t.id = simrt.AddTimer(int64(d), 0, func() {
			atomic.LoadInt32(&t.pub)
			select {
			case c <- Epoch.Add(time.Duration(simrt.Now())):
			default:
			}
		})
	}
	if t.id < 0 && simrt.Active() {
		panic("simtime: timer table full")
	}
	// (outside a run - world set-up, the checks after a run - nothing advances
	// the virtual clock: the timer is simply never due)
	t.seq = simrt.TimerSeq(t.id)
}

func NewTimer(d time.Duration) *Timer {
	if !Virtual() {
		rt := time.NewTimer(d)
		return &Timer{C: rt.C, real: rt, id: -1}
	}
	c := make(chan time.Time, 1)
	t := &Timer{C: c, c: c}
	t.arm(d)
	return t
}

func AfterFunc(d time.Duration, f func()) *Timer {
	if !Virtual() {
		return &Timer{real: time.AfterFunc(d, f), id: -1}
	}
	t := &Timer{f: f}
	t.arm(d)
	return t
}

func After(d time.Duration) <-chan time.Time { return NewTimer(d).C }

func (t *Timer) Stop() bool {
	if t.real != nil {
		return t.real.Stop()
	}
	return simrt.StopTimer(t.id, t.seq)
}

func (t *Timer) Reset(d time.Duration) bool {
	if t.real != nil {
		return t.real.Reset(d)
	}
	was := simrt.StopTimer(t.id, t.seq)
	if t.c != nil {
		// Go 1.23 semantics: no stale value is delivered after Reset
		select {
		case <-t.c:
		default:
		}
	}
	t.arm(d)
	return was
}

// Ticker mirrors time.Ticker.
type Ticker struct {
	C    <-chan time.Time
	c    chan time.Time
	real *time.Ticker
	id   int
	seq  int64
	pub  int32
}

func (t *Ticker) arm(d time.Duration) {
	atomic.StoreInt32(&t.pub, 1)
	c := t.c
	t.id = simrt.AddTimer(int64(d), int64(d), func() {
		atomic.LoadInt32(&t.pub)
		select {
		case c <- Epoch.Add(time.Duration(simrt.Now())):
		default:
		}
	})
	t.seq = simrt.TimerSeq(t.id)
}

func NewTicker(d time.Duration) *Ticker {
	if !Virtual() {
		rt := time.NewTicker(d)
		return &Ticker{C: rt.C, real: rt, id: -1}
	}
	if d <= 0 {
		panic("non-positive interval for NewTicker")
	}
	c := make(chan time.Time, 1)
	t := &Ticker{C: c, c: c}
	t.arm(d)
	return t
}

func Tick(d time.Duration) <-chan time.Time {
	if d <= 0 {
		return nil
	}
	return NewTicker(d).C
}

func (t *Ticker) Stop() {
	if t.real != nil {
		t.real.Stop()
		return
	}
	simrt.StopTimer(t.id, t.seq)
}

func (t *Ticker) Reset(d time.Duration) {
	if t.real != nil {
		t.real.Reset(d)
		return
	}
	if d <= 0 {
		panic("non-positive interval for Ticker.Reset")
	}
	simrt.StopTimer(t.id, t.seq)
	t.arm(d)
}

// ---- contexts with deadlines on the virtual clock ----

type deadlineCtx struct {
	context.Context
	deadline time.Time
	timedOut int32
}

func (c *deadlineCtx) Deadline() (time.Time, bool) { return c.deadline, true }

func (c *deadlineCtx) Err() error {
	if atomic.LoadInt32(&c.timedOut) == 1 {
		return context.DeadlineExceeded
	}
	return c.Context.Err()
}

func WithDeadline(parent context.Context, d time.Time) (context.Context, context.CancelFunc) {
	if !Virtual() {
		return context.WithDeadline(parent, d)
	}
	if cur, ok := parent.Deadline(); ok && cur.Before(d) {
		return context.WithCancel(parent)
	}
	inner, cancel := context.WithCancel(parent)
	c := &deadlineCtx{Context: inner, deadline: d}
	id := simrt.AddTimer(int64(d.Sub(Now())), 0, func() {
		if inner.Err() == nil {
			atomic.StoreInt32(&c.timedOut, 1)
		}
		cancel()
	})
	seq := simrt.TimerSeq(id)
	return c, func() {
		simrt.StopTimer(id, seq)
		cancel()
	}
}

func WithTimeout(parent context.Context, d time.Duration) (context.Context, context.CancelFunc) {
	if !Virtual() {
		return context.WithTimeout(parent, d)
	}
	return WithDeadline(parent, Now().Add(d))
}
