#!/bin/bash
# Builds the harness tools and warms the -race build cache (offline).
set -e
cd "$(dirname "$0")"
export GOFLAGS=-mod=mod GOPROXY=off GOSUMDB=off GOTOOLCHAIN=local
mkdir -p bin evidence replays
go build -o bin/instrument ./cmd/instrument
go build -o bin/simdrive ./cmd/simdrive
./check.sh smoke build
