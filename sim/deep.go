package sim

import (
	"fmt"
	"reflect"
	"strings"
)

// DeepSig renders a value structurally (following pointers and interfaces,
// including unexported fields) so that two snapshots can be compared and a
// difference printed. Pointer identity is not part of the signature.
func DeepSig(v interface{}) string {
	var b strings.Builder
	deepSig(&b, reflect.ValueOf(v), 0)
	return b.String()
}

func deepSig(b *strings.Builder, v reflect.Value, depth int) {
	if depth > 12 {
		b.WriteString("…")
		return
	}
	if !v.IsValid() {
		b.WriteString("nil")
		return
	}
	switch v.Kind() {
	case reflect.Ptr, reflect.Interface:
		if v.IsNil() {
			b.WriteString("nil")
			return
		}
		if v.Kind() == reflect.Interface {
			b.WriteString(v.Elem().Type().String())
			b.WriteByte(':')
		} else {
			b.WriteByte('&')
		}
		deepSig(b, v.Elem(), depth+1)
	case reflect.Struct:
		b.WriteByte('{')
		for i := 0; i < v.NumField(); i++ {
			if i > 0 {
				b.WriteByte(' ')
			}
			b.WriteString(v.Type().Field(i).Name)
			b.WriteByte('=')
			deepSig(b, v.Field(i), depth+1)
		}
		b.WriteByte('}')
	case reflect.Slice:
		if v.Len() == 0 {
			// nil and empty are not distinguished
			b.WriteString("[]")
			return
		}
		fallthrough
	case reflect.Array:
		if v.Type().Elem().Kind() == reflect.Uint8 {
			b.WriteString("x")
			for i := 0; i < v.Len(); i++ {
				fmt.Fprintf(b, "%02x", v.Index(i).Uint())
			}
			return
		}
		b.WriteByte('[')
		for i := 0; i < v.Len(); i++ {
			if i > 0 {
				b.WriteByte(' ')
			}
			deepSig(b, v.Index(i), depth+1)
		}
		b.WriteByte(']')
	case reflect.Bool:
		fmt.Fprintf(b, "%v", v.Bool())
	case reflect.Int, reflect.Int8, reflect.Int16, reflect.Int32, reflect.Int64:
		fmt.Fprintf(b, "%d", v.Int())
	case reflect.Uint, reflect.Uint8, reflect.Uint16, reflect.Uint32, reflect.Uint64:
		fmt.Fprintf(b, "%d", v.Uint())
	case reflect.String:
		fmt.Fprintf(b, "%q", v.String())
	case reflect.Float32, reflect.Float64:
		fmt.Fprintf(b, "%g", v.Float())
	case reflect.Map:
		fmt.Fprintf(b, "map(%d)", v.Len())
	default:
		b.WriteString(v.Kind().String())
	}
}
