// Package sim is the instrumented (race-visible) half of the simulator: task
// wrapper, per-message publication, run loop and result collection. All
// scheduling state lives in package simrt.
package sim

import (
	"fmt"
	"runtime"
	"strings"
	"sync/atomic"

	"verif/simrt"
)

// World is one simulated run under construction.
type World struct {
	names []string
	fns   []func()
	Note  []string // free-form description of the run (samples in evidence)
	// Finish functions run on the main goroutine after all tasks have ended
	// (history checks).
	Finish []func()
}

// Spawn registers a task. Tasks start parked; the scheduler picks the first.
func (w *World) Spawn(name string, f func()) int {
	w.names = append(w.names, name)
	w.fns = append(w.fns, f)
	return len(w.fns) - 1
}

func (w *World) Notef(format string, a ...interface{}) {
	if len(w.Note) < 40 {
		w.Note = append(w.Note, fmt.Sprintf(format, a...))
	}
}

// Result of one run.
type Result struct {
	Seed       uint64            `json:"seed"`
	Hash       uint64            `json:"hash"`
	Steps      int64             `json:"steps"`
	Switches   int64             `json:"switches"`
	Preempts   int64             `json:"preempts"`
	TapeLen    int               `json:"tape_len"`
	Policy     int               `json:"policy"`
	SimTime    int64             `json:"sim_time"`
	Tasks      int               `json:"tasks"`
	Dead       bool              `json:"dead,omitempty"`
	Leaked     bool              `json:"leaked,omitempty"` // goroutines of the library were left blocked: the process must end
	Counters   map[string]int64  `json:"counters,omitempty"`
	Violations []simrt.Violation `json:"violations,omitempty"`
	Note       []string          `json:"note,omitempty"`
	Trace      []string          `json:"trace,omitempty"`
	Tape       []uint64          `json:"tape,omitempty"`
}

// Build is a world constructor: it draws the world shape from the tape and
// spawns tasks. It runs on the main goroutine before the scheduler starts.
type Build func(w *World)

// Scale multiplies the length of the histories a world generates (operations
// per task, packets, requests, steps). 1 in the quick tier, 3 in the thorough
// tier; part of a replay file.
var Scale = 1

// ResetHooks are run before every run (restore process-global state).
var ResetHooks []func()

// SeedHooks are run first of all, with the run's seed (seams whose random
// draws must be a function of the seed: the runtime's map iteration order).
var SeedHooks []func(seed uint64)

// addName records the name of a task started by the library (harness
// bookkeeping done by whichever task is current: invisible to the race
// detector like the rest of the scheduler's state).
//
//go:norace
func addName(w *World, id int, name string) {
	for len(w.names) <= id {
		w.names = append(w.names, name)
	}
}

// RunOne executes one simulated run.
func RunOne(seed uint64, explicit []uint64, build Build, wantTrace, wantTape bool) Result {
	for _, h := range SeedHooks {
		h(seed)
	}
	for _, h := range ResetHooks {
		h()
	}
	simrt.Reset(seed, explicit)
	w := &World{}
	func() {
		defer func() {
			if r := recover(); r != nil {
				simrt.Report("harness:build-panic", fmt.Sprint(r))
			}
		}()
		build(w)
	}()
	n := len(w.fns)
	// started / exited: real atomics, so that the main goroutine's reads
	// after the run are ordered after everything a finished task wrote
	var started, exited int64
	// goroutines the library starts itself (go statements, rewritten to
	// simrt.Go) join the run as additional tasks
	simrt.SpawnHook = func(id int, fn func()) {
		name := fmt.Sprintf("go%d", id)
		addName(w, id, name)
		atomic.AddInt64(&started, 1)
		go func() {
			defer atomic.AddInt64(&exited, 1)
			simrt.TaskEnter(id)
			defer simrt.TaskExit(id)
			defer recoverTask(name)
			fn()
		}()
	}
	simrt.Begin(n)
	for i := 0; i < n; i++ {
		atomic.AddInt64(&started, 1)
		go func(id int) {
			defer atomic.AddInt64(&exited, 1)
			simrt.TaskEnter(id)
			defer simrt.TaskExit(id)
			defer recoverTask(w.names[id])
			w.fns[id]()
		}(i)
	}
	simrt.WaitEnd()
	if simrt.RealDeadlock() {
		// a task is blocked outside the simulator (in a real blocking
		// operation of the library or the standard library) and nothing that
		// is left can release it: its goroutine is abandoned, the worker
		// process ends after this run
		where := "unknown"
		if t := simrt.BlockedRealTask(); t >= 0 {
			where = blockedWhere(simrt.GoID(t))
		}
		simrt.Report("hang:real-deadlock|"+where, "a task is blocked for ever in "+where+" (every other task has finished or waits for it)")
		w.Finish = nil
	}
	// wait for every task that can finish (abandoned goroutines never do)
	for atomic.LoadInt64(&exited) < atomic.LoadInt64(&started)-int64(simrt.Abandoned()) {
		runtime.Gosched()
	}
	for _, f := range w.Finish {
		func() {
			defer func() {
				if r := recover(); r != nil {
					simrt.Report("harness:finish-panic", fmt.Sprint(r))
				}
			}()
			f()
		}()
	}
	if simrt.SlotsExhausted() {
		simrt.Report("harness:task-slots", fmt.Sprintf("the library had more than %d goroutines alive at once: beyond what the simulator schedules", simrt.MaxTasks))
	}
	st := simrt.RunStats()
	res := Result{
		Seed: seed, Hash: simrt.TraceHash(), Steps: st.Steps, Switches: st.Switches,
		Preempts: st.Preempts, TapeLen: st.TapeLen, Policy: st.Policy, SimTime: st.SimTime,
		Tasks: n, Dead: st.Dead, Note: w.Note,
		Leaked: simrt.Leaked() || simrt.RealDeadlock(),
	}
	names := simrt.CounterNames()
	for i, nm := range names {
		if v := simrt.CounterValue(i); v != 0 {
			if res.Counters == nil {
				res.Counters = map[string]int64{}
			}
			res.Counters[nm] = v
		}
	}
	for _, v := range simrt.Violations() {
		res.Violations = append(res.Violations, v)
	}
	if st.Dead && len(res.Violations) == 0 {
		// (a deadlock that follows a crash or hang of one party is a
		// consequence, already reported under that signature)
		res.Violations = append(res.Violations, simrt.Violation{Sig: "harness:sim-deadlock", Msg: "no task eligible and no timer pending"})
	}
	if wantTrace {
		for _, e := range simrt.TraceEvents() {
			nm := "main"
			if int(e.Task) >= 0 && int(e.Task) < len(w.names) {
				nm = w.names[e.Task]
			}
			res.Trace = append(res.Trace, fmt.Sprintf("step=%d task=%s ev=%s a=%d b=%d", e.Seq, nm, EvName(int(e.Code)), e.A, e.B))
		}
	}
	if wantTape {
		res.Tape = simrt.TapeCopy()
	}
	return res
}

// blockedWhere returns the innermost library function on the stack of the
// goroutine with the given id (or the innermost function at all).
func blockedWhere(goid uint64) string {
	buf := make([]byte, 1<<20)
	n := runtime.Stack(buf, true)
	head := fmt.Sprintf("goroutine %d [", goid)
	text := string(buf[:n])
	i := strings.Index(text, head)
	if i < 0 {
		return "unknown"
	}
	block := text[i:]
	if j := strings.Index(block, "\n\n"); j > 0 {
		block = block[:j]
	}
	first := ""
	for _, ln := range strings.Split(block, "\n")[1:] {
		if strings.HasPrefix(ln, "\t") || ln == "" {
			continue
		}
		fn := ln
		if k := strings.LastIndex(fn, "("); k > 0 {
			fn = fn[:k]
		}
		if first == "" {
			first = fn
		}
		if strings.HasPrefix(fn, ModulePrefix) {
			return ShortFunc(fn)
		}
	}
	return first
}

// evNames maps trace codes to names (registered by worlds at init).
var evNames = map[int]string{9999: "violation"}

func RegisterEv(code int, name string) int { evNames[code] = name; return code }

func EvName(code int) string {
	if s, ok := evNames[code]; ok {
		return s
	}
	return fmt.Sprintf("ev%d", code)
}

// ModulePrefix is the import-path prefix of the library under test.
const ModulePrefix = "github.com/brocaar/lorawan"

// innermostRepoFunc returns the innermost function of the library in the
// current (panicking) stack.
func innermostRepoFunc() string {
	pcs := make([]uintptr, 64)
	n := runtime.Callers(3, pcs)
	frames := runtime.CallersFrames(pcs[:n])
	for {
		fr, more := frames.Next()
		if strings.HasPrefix(fr.Function, ModulePrefix) {
			return ShortFunc(fr.Function)
		}
		if !more {
			break
		}
	}
	return "harness"
}

// ShortFunc strips the module prefix: github.com/brocaar/lorawan/band.(*band).GetUplinkChannel → band.(*band).GetUplinkChannel
func ShortFunc(f string) string {
	f = strings.TrimPrefix(f, ModulePrefix)
	f = strings.TrimPrefix(f, "/")
	f = strings.TrimPrefix(f, ".")
	// closures: keep the enclosing function name
	if i := strings.Index(f, ".func"); i > 0 {
		f = f[:i]
	}
	return f
}

func recoverTask(task string) {
	r := recover()
	if r == nil {
		return
	}
	if sc, ok := r.(simrt.StepCapPanic); ok {
		fn := innermostRepoFunc()
		simrt.Report("hang:"+fn, fmt.Sprintf("task %s exceeded the step cap at site %d: a library call does not terminate", task, sc.Site))
		return
	}
	fn := innermostRepoFunc()
	if fn == "harness" {
		simrt.Report("harness:panic", fmt.Sprintf("task %s: %v", task, r))
		return
	}
	simrt.Report("panic:"+fn, fmt.Sprintf("task %s: %v", task, r))
}

// Guard runs f and converts a panic raised inside the library into a
// violation with the given signature prefix; it returns true if f panicked.
// Used where a world wants to continue after a crashing call.
func Guard(sigPrefix string, f func()) (panicked bool) {
	defer func() {
		if r := recover(); r != nil {
			if _, ok := r.(simrt.StepCapPanic); ok {
				panic(r)
			}
			fn := innermostRepoFunc()
			if fn == "harness" {
				simrt.Report("harness:panic", fmt.Sprint(r))
			} else {
				simrt.Report(sigPrefix+":"+fn, fmt.Sprint(r))
			}
			panicked = true
		}
	}()
	f()
	return false
}

// ---- messages with a per-message happens-before edge ----

// Msg is an envelope handed from one task to another. The producer fills the
// fields and calls Publish; the consumer calls Acquire before reading them.
type Msg struct {
	pub  int32
	Kind int
	Data interface{}
}

func (m *Msg) Publish() { atomic.StoreInt32(&m.pub, 1) }
func (m *Msg) Acquire() {
	if atomic.LoadInt32(&m.pub) != 1 {
		panic("sim: message consumed before publication")
	}
}

// Mailbox is a FIFO between tasks.
type Mailbox struct {
	q simrt.Queue
}

var nextKey int32 = 100

// NewMailbox must be called during world build (main goroutine).
func NewMailbox() *Mailbox {
	nextKey++
	mb := &Mailbox{}
	mb.q.Key = nextKey
	return mb
}

func (mb *Mailbox) Send(kind int, data interface{}) {
	m := &Msg{Kind: kind, Data: data}
	m.Publish()
	if !mb.q.Push(m) {
		panic("sim: mailbox overflow")
	}
}

// TryRecv returns the next message if there is one.
func (mb *Mailbox) TryRecv() (*Msg, bool) {
	v, ok := mb.q.Pop()
	if !ok {
		return nil, false
	}
	m := v.(*Msg)
	m.Acquire()
	return m, true
}

// Recv blocks (in simulated terms) until a message arrives, the deadline
// (virtual ns, 0 = none) passes, or the simulation dies.
func (mb *Mailbox) Recv(deadline int64) (*Msg, bool) {
	for {
		if m, ok := mb.TryRecv(); ok {
			return m, true
		}
		if deadline > 0 && simrt.Now() >= deadline {
			return nil, false
		}
		if !simrt.PauseOn(mb.q.Key, deadline) {
			return nil, false
		}
	}
}

func (mb *Mailbox) Len() int { return mb.q.Len() }

// Key is the wait key of the mailbox (for simrt.PauseOn / Notify).
func (mb *Mailbox) Key() int32 { return mb.q.Key }

// HB creates a happens-before edge with every other task that calls HB:
// worlds whose tasks share harness state under the run-to-block policy call
// it before and after every blocking point, which orders them totally (and
// deliberately takes the race detector out of the picture for that world).
func HB() { atomic.AddInt32(&hbWord, 1) }

var hbWord int32

// ---- deterministic bulk randomness derived from one tape entry ----

type Rand struct{ s uint64 }

func NewRand(sub uint64) *Rand { return &Rand{s: sub} }

func (r *Rand) U64() uint64 {
	r.s += 0x9e3779b97f4a7c15
	z := r.s
	z = (z ^ (z >> 30)) * 0xbf58476d1ce4e5b9
	z = (z ^ (z >> 27)) * 0x94d049bb133111eb
	return z ^ (z >> 31)
}
func (r *Rand) Intn(n int) int {
	if n <= 1 {
		return 0
	}
	return int(r.U64() % uint64(n))
}
func (r *Rand) Bytes(n int) []byte {
	b := make([]byte, n)
	for i := 0; i < n; i += 8 {
		v := r.U64()
		for k := 0; k < 8 && i+k < n; k++ {
			b[i+k] = byte(v >> (8 * k))
		}
	}
	return b
}
func (r *Rand) Fill(b []byte) { copy(b, r.Bytes(len(b))) }

// Op marks the beginning of one operation of a world task: it resets the
// non-termination detector and lets a seed-chosen amount of virtual time pass
// (mostly none; milliseconds to weeks otherwise - what a library that keeps
// time-stamped state would meet between two calls). Sequential worlds keep
// their total order around the switch.
func Op() {
	simrt.Progress()
	d := simrt.OpTimeDraw()
	if d == 0 || simrt.Dead() {
		return
	}
	simrt.CountTimePassed()
	if simrt.ForcedRunToBlock() {
		HB()
		simrt.Sleep(d)
		HB()
		return
	}
	simrt.Sleep(d)
}
