// Package stublog replaces github.com/sirupsen/logrus in the instrumented
// scratch copy of /repo (backend, backend/joinserver). logrus allocates its
// entries from a sync.Pool and serialises output with a mutex; both create
// happens-before edges between otherwise independent request handlers (and
// sync.Pool drops objects at random under the race detector), which would
// hide races and break replay. The library only logs; the stub has no state.
package stublog

import "io"

type Fields map[string]interface{}

type Logger struct {
	Out io.Writer
}

type Entry struct{}

var theEntry = &Entry{}

func (l *Logger) WithFields(Fields) *Entry             { return theEntry }
func (l *Logger) WithField(string, interface{}) *Entry { return theEntry }
func (l *Logger) WithError(error) *Entry               { return theEntry }
func (l *Logger) Debug(...interface{})                 {}
func (l *Logger) Info(...interface{})                  {}
func (l *Logger) Warning(...interface{})               {}
func (l *Logger) Warn(...interface{})                  {}
func (l *Logger) Error(...interface{})                 {}
func (l *Logger) Debugf(string, ...interface{})        {}
func (l *Logger) Infof(string, ...interface{})         {}
func (l *Logger) Warningf(string, ...interface{})      {}
func (l *Logger) Errorf(string, ...interface{})        {}

func (e *Entry) WithFields(Fields) *Entry             { return e }
func (e *Entry) WithField(string, interface{}) *Entry { return e }
func (e *Entry) WithError(error) *Entry               { return e }
func (e *Entry) Debug(...interface{})                 {}
func (e *Entry) Info(...interface{})                  {}
func (e *Entry) Warning(...interface{})               {}
func (e *Entry) Warn(...interface{})                  {}
func (e *Entry) Error(...interface{})                 {}
func (e *Entry) Debugf(string, ...interface{})        {}
func (e *Entry) Infof(string, ...interface{})         {}
func (e *Entry) Warningf(string, ...interface{})      {}
func (e *Entry) Errorf(string, ...interface{})        {}
