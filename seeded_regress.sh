#!/bin/bash
# seeded_regress.sh: run every seeded change (and the own sensitivity set) against the checks that are
# recorded to catch it; prints one line per (change, property). Needs ~25 min on 16 cores.
cd "$(dirname "$0")"
for d in seeded/*/; do
  id=$(basename $d)
  props=$(python3 -c "import json;m=json.load(open('$d/meta.json'));print(' '.join(p for p,v in m['caught_by'].items() if not v.startswith('MISSED')))")
  for p in $props; do echo "$id $(./mutrun.sh $d/patch.diff $p 2>&1 | tail -1 | cut -c1-160)"; done
done
for f in sensitivity/*.diff; do
  n=$(basename $f .diff); p=$(echo $n | cut -c1-3 | tr c C)
  echo "$n $(./mutrun.sh $f $p 2>&1 | tail -1 | cut -c1-160)"
done
