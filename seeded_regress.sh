#!/bin/bash
# seeded_regress.sh [prefixes...]: run every seeded change (and the own sensitivity set) against the checks that are
# recorded to catch it; prints one line per (change, property). Needs a few hours on 16 cores; arguments restrict it to
# ids with one of the given prefixes (e.g. "C05 C07").
cd "$(dirname "$0")"
want() { [ $# -eq 0 ] && return 0; for p in "${PFX[@]}"; do case "$1" in $p*) return 0;; esac; done; return 1; }
PFX=("$@")
sel() { [ ${#PFX[@]} -eq 0 ] && return 0; for p in "${PFX[@]}"; do case "$1" in $p*) return 0;; esac; done; return 1; }
for d in seeded/*/; do
  id=$(basename $d)
  sel "$id" || continue
  props=$(python3 -c "import json;m=json.load(open('$d/meta.json'));print(' '.join(p for p,v in m['caught_by'].items() if not v.startswith('MISSED')))")
  [ -z "$props" ] && props=${id:0:3}
  for p in $props; do echo "$id $p $(./mutrun.sh $d/patch.diff $p 2>&1 | tail -1 | cut -c1-160)"; done
done
for f in sensitivity/*.diff; do
  n=$(basename $f .diff); p=$(echo $n | cut -c1-3 | tr c C)
  sel "$p" || continue
  echo "$n $(./mutrun.sh $f $p 2>&1 | tail -1 | cut -c1-160)"
done
