#!/bin/bash
# mutrun.sh <patch.diff> <prop> [<prop>...] : run quick checks against a scratch
# worktree of /repo with the patch applied (never touches /repo itself).
# Prints one line per property: CAUGHT / MISSED / BROKEN(exit 2).
set -u
VERIF="$(cd "$(dirname "$0")" && pwd)"
PATCH="$(readlink -f "$1")"; shift
WT="/tmp/mut/run-$$"
git -C /repo worktree add -q --detach "$WT" HEAD || exit 2
trap 'git -C /repo worktree remove --force "$WT" >/dev/null 2>&1' EXIT
git -C "$WT" apply "$PATCH" 2>/dev/null || git -C "$WT" apply --3way "$PATCH" 2>/dev/null || { echo "STALE: patch does not apply to the current tree"; exit 2; }
( cd "$WT" && GOFLAGS=-mod=mod GOPROXY=off go build ./... ) || { echo "mutant does not compile"; exit 2; }
for P in "$@"; do
  OUT=$(VERIF_REPO="$WT" VERIF_EVIDENCE_DIR="$WT/.evidence" VERIF_REPLAY_DIR="$WT/.replays" "$VERIF/check.sh" "$P" "${MUT_TIER:-quick}" 2>&1); RC=$?
  SIGS=$(echo "$OUT" | grep "^  signature:" | sed 's/^  signature: //' | sort -u | tr '\n' ' ')
  case $RC in
    0) echo "$P MISSED" ;;
    1) echo "$P CAUGHT: $SIGS" ;;
    *) echo "$P BROKEN rc=$RC: $(echo "$OUT" | grep -i "MACHINERY-ERROR\|check.sh:\|simdrive:" | head -3)" ;;
  esac
done
