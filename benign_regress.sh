#!/bin/bash
# benign_regress.sh [ids...]: every change in benign/ (changes to the library that do NOT break their property: restructured
# code, correct concurrency or time inside the library, behaviour the statement leaves open) against its own property's check
# and the C10 check. Every line must say MISSED (= no alarm); CAUGHT or BROKEN is a false alarm of the machinery.
cd "$(dirname "$0")"
ids="$@"; [ -z "$ids" ] && ids=$(ls benign | grep -v index)
for id in $ids; do
  p=${id:0:3}; props="$p"; [ "$p" != C10 ] && props="$p C10"
  for q in $props; do echo "$id $(./mutrun.sh benign/$id/patch.diff $q 2>&1 | tail -1 | cut -c1-200)"; done
done
