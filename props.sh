# Evidence texts per world (sourced by check.sh).
COMMON_REAL='instrumented /repo packages: github.com/brocaar/lorawan (root)|band|backend|backend/joinserver|applayer/*'
COMMON_ASSUME='one seed = one tape = one execution (GOMAXPROCS=1, cooperative hand-off invisible to the race detector)|preemption at statement granularity of /repo packages only, not inside the standard library or dependencies|simulation samples schedules, histories and faults: a clean batch is evidence, not proof'

rule_smoke() { echo "smoke world (machinery self-test)"; }
assume_smoke() { echo "$COMMON_ASSUME"; }
real_smoke() { echo "$COMMON_REAL"; }
stub_smoke() { echo "none"; }

rule_reg() { echo "each run: VERIF_SEED-derived tape decides 2-4 codec tasks, 0-6 proprietary registrations (CID, direction, size; rejected range and size-0 no-ops included), 3-14 codec operations per task (FOpts / port-0 stream decode, whole-frame round trip, GetMACPayloadAndSize, lossless-or-error on in-range and full-domain field values) and every task switch; a run is non-trivial when a registration overlapped a stream decode in simulated time; distinct = distinct trace hash (hash over all recorded events incl. task id and order)"; }
assume_reg() { echo "$COMMON_ASSUME|re-registering a CID with size 0 and negative sizes are kept out of judged histories (DESIGN.md C07/R1)|field ranges and bit layouts in /verif/spec are transcribed from LoRaWAN 1.0.4/1.1; values outside the ranges only need lossless-or-error"; }
real_reg() { echo "$COMMON_REAL|RegisterProprietaryMACCommand, GetMACPayloadAndSize, MACCommand.Marshal/UnmarshalBinary, DecodeFOptsToMACCommands, DecodeFRMPayloadToMACCommands, PHYPayload.Marshal/UnmarshalBinary"; }
stub_reg() { echo "operator and codec tasks (workload)|model registry, command-stream splitter, bit-layout decoder (oracles, /verif/spec)|porcupine v1.3.0 (linearizability checker)"; }

rule_iso() { echo "each run: the tape decides 2-4 worker tasks, 4-31 packets (sessions 1.0/1.1, both directions, frame factory), which memory each packet lands in (one reusable receive buffer, cap-limited or not, or a slot of a pool arena with neighbours), binary or base64 decode, which worker processes it and when (the scheduler decides whether the receive task has already overwritten / scribbled the memory), read-only sharing of one frame between two workers, exported crypto on arena windows ending at a neighbour's region, decode-into-used-value experiments over every decodable type of the root and applayer packages, band mutations next to an observer instance, and 0-4 proprietary registrations; a run is non-trivial when a worker processed a frame after its receive memory had been reused; distinct = distinct trace hash"; }
assume_iso() { echo "$COMMON_ASSUME|isolation oracles are differential against the same library call on private data (deep structural snapshots via reflection)|Validate* is allowed to be preceded by the documented assignment of the full FCnt"; }
real_iso() { echo "$COMMON_REAL|PHYPayload Unmarshal/Marshal Binary/Text/JSON, Validate*DataMIC, Encrypt/Decrypt FOpts/FRMPayload, exported EncryptFRMPayload/EncryptFOpts, DecryptJoinAcceptPayload, all UnmarshalBinary methods of root and applayer packages, band.GetConfig/AddChannel/Enable/Disable/getters, RegisterProprietaryMACCommand"; }
stub_iso() { echo "receive loop, buffer pool, worker pool, operator (workload)|keystream model (spec) for the crypto windows"; }
