# Evidence texts per world (sourced by check.sh).
COMMON_REAL='instrumented /repo packages: github.com/brocaar/lorawan (root)|band|backend|backend/joinserver|applayer/*'
COMMON_ASSUME='one seed = one tape = one execution (GOMAXPROCS=1, cooperative hand-off invisible to the race detector)|preemption at statement granularity of /repo packages only, not inside the standard library or dependencies|simulation samples schedules, histories and faults: a clean batch is evidence, not proof'

rule_smoke() { echo "smoke world (machinery self-test)"; }
assume_smoke() { echo "$COMMON_ASSUME"; }
real_smoke() { echo "$COMMON_REAL"; }
stub_smoke() { echo "none"; }

rule_reg() { echo "each run: VERIF_SEED-derived tape decides 2-4 codec tasks, 0-6 proprietary registrations (CID, direction, size; rejected range and size-0 no-ops included), 3-14 codec operations per task (FOpts / port-0 stream decode, whole-frame round trip, GetMACPayloadAndSize, lossless-or-error on in-range and full-domain field values) and every task switch; a run is non-trivial when a registration overlapped a stream decode in simulated time; distinct = distinct trace hash (hash over all recorded events incl. task id and order)"; }
assume_reg() { echo "$COMMON_ASSUME|re-registering a CID with size 0 and negative sizes are kept out of judged histories (DESIGN.md C07/R1)|field ranges and bit layouts in /verif/spec are transcribed from LoRaWAN 1.0.4/1.1; values outside the ranges only need lossless-or-error"; }
real_reg() { echo "$COMMON_REAL|RegisterProprietaryMACCommand, GetMACPayloadAndSize, MACCommand.Marshal/UnmarshalBinary, DecodeFOptsToMACCommands, DecodeFRMPayloadToMACCommands, PHYPayload.Marshal/UnmarshalBinary"; }
stub_reg() { echo "operator and codec tasks (workload)|model registry, command-stream splitter, bit-layout decoder (oracles, /verif/spec)|porcupine v1.3.0 (linearizability checker)"; }
