#!/bin/bash
# selftest_determinism.sh <simworld> : every world, K seeds, three executions in
# separate processes with different batch partitioning (one process / 8
# processes / 40 processes); per-seed trace hash, step count, tape length and
# violations must be identical, i.e. a run is a function of its seed alone
# (not of the worker's history, not of wall-clock, not of map iteration).
W="$1"; K="${VERIF_DET_SEEDS:-240}"; BASE="${VERIF_DET_BASE:-7000000}"
T=$(mktemp -d /tmp/verif-det-XXXXXX); trap 'rm -rf "$T"' EXIT
export GORACE="halt_on_error=0 atexit_sleep_ms=0 exitcode=0" GOMAXPROCS=1 GODEBUG=asyncpreemptoff=1
grep -n "range .*map\|\.Range(" /verif/sim/*.go /verif/simrt/*.go /verif/worlds/*/*.go /verif/spec/*.go | grep -v "// det-ok" > "$T/maps.txt"
if [ -s "$T/maps.txt" ]; then echo "note: map iterations in harness code (each must be order-independent or sorted):"; cat "$T/maps.txt"; fi
# a worker ends early after a run that left goroutines of the library behind
# (they would wake up in a later run): the remaining seeds get a new process
runpart() {
  local world=$1 from=$2 cnt=$3 out=$4 err=$5 n
  : > "$out"; : > "$err"
  while [ "$cnt" -gt 0 ]; do
    "$W" -world $world -scale ${VERIF_DET_SCALE:-1} -from $from -count $cnt 2>>"$err" | grep -v '"summary":true' > "$out.tmp"
    n=$(wc -l < "$out.tmp"); cat "$out.tmp" >> "$out"; rm -f "$out.tmp"
    [ "$n" -eq 0 ] && break
    from=$((from+n)); cnt=$((cnt-n))
  done
}
rc=0
for world in ${VERIF_DET_WORLDS:-reg iso join radio plan adr}; do
  run() { # parts label
    local parts=$1 label=$2 per=$((K/$1))
    for ((p=0;p<parts;p++)); do
      runpart $world $((BASE+p*per)) $per "$T/$world.$label.$p.out" "$T/$world.$label.$p.err" &
      if (( (p+1) % 16 == 0 )); then wait; fi
    done; wait
    cat $(for ((p=0;p<parts;p++)); do echo "$T/$world.$label.$p.out"; done) | python3 -c "
import sys,json
for l in sys.stdin:
    r=json.loads(l); print(r['seed'],r['hash'],r['steps'],r['tape_len'],r.get('switches'),sorted(v['Sig'] for v in r.get('violations') or []))" > "$T/$world.$label.sum"
    cat $(for ((p=0;p<parts;p++)); do echo "$T/$world.$label.$p.err"; done) | grep -c "DATA RACE" > "$T/$world.$label.races"
  }
  run 1 a; run 8 b; run 40 c; run 1 d
  if cmp -s "$T/$world.a.sum" "$T/$world.b.sum" && cmp -s "$T/$world.a.sum" "$T/$world.c.sum" && cmp -s "$T/$world.a.sum" "$T/$world.d.sum"; then
    echo "determinism $world: $K seeds x 4 executions (1/8/40/1 processes) identical; race reports: $(cat $T/$world.a.races)/$(cat $T/$world.b.races)/$(cat $T/$world.c.races)/$(cat $T/$world.d.races)"
  else
    echo "DETERMINISM FAILURE in world $world:"; diff "$T/$world.a.sum" "$T/$world.b.sum" | head -5; diff "$T/$world.a.sum" "$T/$world.c.sum" | head -5; diff "$T/$world.a.sum" "$T/$world.d.sum" | head -5
    rc=1
  fi
done
exit $rc
