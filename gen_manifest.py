#!/usr/bin/env python3
# Regenerates MANIFEST.json (kept as a script so the n/a list and the claimed checks stay in one place).
import json
na = {
 "C01":"pure function of one frame value (decode(encode(v)) = v): no schedule, clock, fault, peer or history for a simulator to decide; generated-input testing is a different technique family (DESIGN.md §5 C01)",
 "C02":"the MIC is a pure function of (frame, keys, version, counters, txDR, txCh); nothing for a scheduler or fault injector to decide (DESIGN.md §5 C02)",
 "C03":"pure function of (key, direction, DevAddr, FCnt, bytes), including the 'never reports success untransformed' clause (DESIGN.md §5 C03)",
 "C04":"pure functions of payload fields and a key (DESIGN.md §5 C04)",
 "C06":"bit-exact comparison of pure encoders/decoders with a static format table; no interleaving, fault or history involved (DESIGN.md §5 C06)",
 "C08":"pure function of a byte string; the deciding technique is fuzzing/enumeration, not simulation (DESIGN.md §5 C08)",
 "C09":"totality of decoders over arbitrary bytes is a pure-input property; the technique for it is fuzzing (DESIGN.md §5 C09)",
 "C11":"pure bit arithmetic and text/binary conversions on values (DESIGN.md §5 C11)",
 "C12":"lookups in constant per-band tables for a fixed configuration; no state change, schedule or fault (DESIGN.md §5 C12)",
 "C13":"relations over constant tables, enumerable without executing any history (DESIGN.md §5 C13)",
 "C17":"pure JSON / RFC 3394 key-wrap functions of their inputs; the client's transport behaviour is not part of the statement (DESIGN.md §5 C17)",
 "C18":"pure encode/decode and single-block AES derivations (the reuse aspect of these decoders is covered under C10) (DESIGN.md §5 C18)",
 "C19":"Encode is a pure function of (data, fragment size, redundancy); a lossy channel would only sample erasure patterns for it (DESIGN.md §5 C19)",
 "C20":"pure arithmetic on a given instant / parameter tuple; gps reads no clock, so simulated clock skew has nothing to act on (DESIGN.md §5 C20)",
}
pending = []
m = {
 "version":1,
 "setup_cmd":"./setup.sh",
 "hooks":{
   "guard":"verif",
   "enable":"none needed: each check instruments a scratch copy of /repo's working tree (go/ast yield points + controllable locks, library go statements as tasks, the clock and timers redirected to the simulator's virtual clock, logrus stub, sync.Pool / map-order / select-order overlay, rewind of package-level state between runs) and builds it with -race; /repo carries no hook commit",
   "baseline_off_cmd":"cd /repo && go test -vet=off -count=1 -timeout 25m ./...",
   "source_commits":[],
   "add_only":True
 },
 "engines":[{"name":"gosim","path":"/verif","serves_properties":["C05","C07","C10","C14","C15","C16"],
   "kind_free_text":"deterministic simulation: seeded cooperative scheduler over source-instrumented /repo (simrt), race detector as deterministic oracle, seam fault injection, reference-model/history oracles, tape shrinking and replay"}],
 "checks":[],
 "notes":"fix: commits in /repo are recorded in /verif/known_findings.json (status fixed); genuine defects that cannot be repaired within the rules are listed there with status known. Exit 2 = machinery trouble (build, watchdog), never a verdict.",
 "not_applicable":[]
}
def check(pid, world, text, note, tech):
    return {"property_id":pid,"quick_cmd":f"./check.sh {pid} quick","thorough_cmd":f"./check.sh {pid} thorough",
      "evidence_file":f"/verif/evidence/{pid}.json","replay_cmd_template":f"./check.sh {pid} replay {{path}}","engine":"gosim",
      "level_claimed":{"category":"exploration","text":text,"design_ref":f"DESIGN.md §5 {pid}, §4 {world}"},
      "level_note":note,"technique":tech}
C = {
"C05": ("W-RADIO",
  "Seeded search over fault sequences and session histories: 1-4 device tasks and a network-server task exchange frames that are produced and consumed by the real library over a simulated radio that loses, duplicates, reorders, delays, corrupts (per byte class), truncates and misroutes frames, with long partitions (16-bit counter roll-over), restarts with stale keys or counters, reflected direction and 1.1 MIC-parameter skew. Every arrival is judged against an independent spec MIC over the RECEIVED bytes with the RECEIVER's parameters (accepted => spec MIC equals wire MIC; unmodified and in-sync => accepted and content identical to what was sent). Sampling, not proof; the library holds no session state, so the simulator's leverage here is correlated perturbations and the per-arrival oracle rather than interleaving. Virtual time passes between operations and while frames are in the air (the library's clock is the simulator's); one run in forty has 24-57 sessions.",
  "Trusted: AES-CMAC / B0 / B1 / keystream models in /verif/spec (RFC 4493, LoRaWAN 1.0.4/1.1), session logic of the harness. MHDR RFU bits: see known findings.",
  "deterministic simulation: seeded fault injection on a simulated radio + independent spec-MIC oracle per arrival"),
"C07": ("W-REG",
  "Seeded search over schedules x registration histories: an operator registers proprietary MAC commands while 2-4 codec tasks decode command streams through the real library, preempted at every statement. Decided by: registry linearizability (porcupine) against a sequential map model, stream framing against an independent splitter + bit-layout decoder (exact when no registration is in flight, per-registration sizes otherwise), direction isolation, size-table = encoded length, lossless-or-error over in-range and full-domain values, and the race detector made deterministic. Callers modify decoded commands they were handed and encode every command twice; histories of up to 260 registrations; virtual time passes between operations. Sampling, not proof; the value half (R5) is sampled only.",
  "Trusted: the spec tables in /verif/spec (transcribed from LoRaWAN 1.0.4/1.1), porcupine, Go race detector, statement-granularity preemption. Re-registration with size 0 and negative sizes are outside the judged histories.",
  "deterministic simulation: seeded scheduler + history/linearizability oracle + deterministic race oracle"),
"C10": ("W-ISO",
  "Seeded search over schedules x buffer-reuse timing: a receive task decodes packets from one reusable buffer / a pool arena and hands frames to 2-4 workers that validate, decrypt and re-marshal them while the memory is being overwritten; workers also run exported crypto on arena windows bordering a neighbour's region, decode into used values of every decodable type (also after their owner set numbers, flags and addresses in them), pass hand-built frames in unusual states and owner-set values to the operations that only inspect them, mutate a band next to an observer instance; an operator registers MAC commands. Decided by differential oracles against the same call on private data (aliasing, spill, read-only, reuse, band independence), by repeating every outcome observed under concurrency alone after the run (interference), and by the race detector as a deterministic function of the seed. Functional correctness of those outcomes is deliberately not judged here. One run in thirty is a crowd of 34-57 sessions doing MIC/crypto at the same time. Sampling, not proof.",
  "Trusted: reflection-based deep snapshots, the keystream model, Go race detector (shadow-cell eviction could in principle drop an access), statement-granularity preemption.",
  "deterministic simulation: seeded scheduler + buffer-reuse fault timing + deterministic race oracle + differential isolation oracles"),
"C14": ("W-ADR",
  "Seeded search over band operation histories x device channel sets x a lossy NS<->device LinkADR exchange (lost downlinks, lost answers, device resets and re-joins, operator changes mid-flight, mis-provisioned devices): at every planning step the generated payloads, applied by the band's own apply function AND by an independent device model of LinkADRReq processing, must yield exactly the network's enabled channels restricted to what the device can know; every payload encodes, survives the wire, and the count bound holds. The channel-list model is updated by the same history, never read from the band's getters. The caller re-uses its device-list buffer and overwrites plans it was handed; plans grown to 92 channels; device sets planned again after many others. Sampling, not proof.",
  "Trusted: the channel-list model and the LinkADRReq apply model in /verif/spec (Regional Parameters), MAC-command wire pipeline of the library for A3.",
  "deterministic simulation: seeded operation histories + lossy exchange + refinement against an executable reference model"),
"C15": ("W-PLAN",
  "Seeded search over operation histories {AddChannel, Disable, Enable} with boundary-biased arbitrary int/uint32 arguments on every band configuration, with observer steps after every operation: refinement of all index-set getters and lookups against a channel-list model, error-not-panic discipline for every accessor, CFList rule, and closure of every band output under the MAC layer (join-accept with CFList through encrypt/marshal/unmarshal/decrypt; frequency-carrying MAC commands through stream encode/decode). The caller overwrites results and CFLists it was handed and asks again; histories of up to 800 operations. Sampling, not proof.",
  "Trusted: the channel-list model in /verif/spec; which values count as 'produced by the band' (defaults and custom channels the operator chose on the region's grid). ISM2400 encodability: see known findings.",
  "deterministic simulation: seeded operation histories + refinement against an executable reference model + cross-layer closure"),
"C16": ("W-JOIN",
  "Seeded search over schedules x fault sequences: 1-3 network-server tasks push join-, rejoin- and HomeNS-requests of 1-6 independently modelled devices through ONE real join-server handler (via the real backend client or raw HTTP bodies), interleaved at every statement, with faults at every seam (four storage callbacks that fail, fail once, are slow in virtual time or answer after the client has gone; devices provisioned and KEKs re-keyed during the run; body reader, response writer incl. use after return, transport loss/duplication/truncation, radio corruption), up to 29 connections at once; configurations with and without the optional callbacks, with other handlers in the process. Decided by an independent device model: it decrypts the join-accept, checks its MIC, the echoed fields and the configured JoinNonce, unwraps the key envelopes with the configured KEKs (own RFC 3394) and compares them with the keys it derives; plus error-code, mirroring, narrow fault relaxation, cross-request independence (race oracle) and a clean join after faults stop. Sampling, not proof.",
  "Trusted: the device model and key derivations in /verif/spec, Go race detector; logrus stubbed, sync.Pool made a deterministic per-run LIFO in the worker build; Redis/async client mode not simulated. Rejoin session keys: see known findings.",
  "deterministic simulation: seeded scheduler + seam fault injection + independent device-model oracle + deterministic race oracle"),
}
WORLD={"C05":"W-RADIO","C10":"W-ISO","C14":"W-ADR","C15":"W-PLAN","C16":"W-JOIN"}
for pid in sorted(C):
    if pid in pending: continue
    w,t,n,tech=C[pid]
    m["checks"].append(check(pid,w,t,n,tech))
for pid in sorted(na): m["not_applicable"].append({"property_id":pid,"reason":na[pid]})
for pid in sorted(pending): m["not_applicable"].append({"property_id":pid,"reason":f"not claimed yet: simulated world {WORLD[pid]} is under construction (DESIGN.md §4); will move to checks when it exists"})
json.dump(m,open('/verif/MANIFEST.json','w'),indent=1)
print("claimed:",[c["property_id"] for c in m["checks"]])
