// Package all links every world into the worker.
package all

import (
	_ "verif/worlds/adr"
	_ "verif/worlds/iso"
	_ "verif/worlds/join"
	_ "verif/worlds/plan"
	_ "verif/worlds/radio"
	_ "verif/worlds/reg"
	_ "verif/worlds/smoke"
)
