// Package iso is world W-ISO (property C10): a network-server shaped the way
// this library is deployed. A receive task decodes packets out of ONE
// reusable buffer / a pool arena and hands the decoded frames to worker
// tasks that validate, decrypt and re-marshal them later, while the receive
// task keeps overwriting the same memory; workers also run the exported
// crypto functions on arena windows, decode into used values, mutate their
// own band instance while watching another, and an operator registers
// proprietary MAC commands.
//
// Oracles I1-I7 of DESIGN.md §5 C10. They are differential against the same
// library call on private, isolated data - the definition of isolation.
package iso

import (
	"bytes"
	"encoding/base64"
	"fmt"

	"github.com/brocaar/lorawan"
	"github.com/brocaar/lorawan/band"

	"verif/sim"
	"verif/simrt"
	"verif/spec"
	"verif/worlds"
	"verif/worlds/pipe"
)

func init() { worlds.Register("iso", build) }

var (
	evRecv   = sim.RegisterEv(300, "recv")
	evWork   = sim.RegisterEv(301, "work")
	evCrypto = sim.RegisterEv(302, "crypto")
	evReuse  = sim.RegisterEv(303, "reuse")
	evBand   = sim.RegisterEv(304, "band")
	evReg    = sim.RegisterEv(305, "register")
	evShared = sim.RegisterEv(306, "shared")

	cNontrivial   = simrt.RegisterCounter("nontrivial")
	cOverwrite    = simrt.RegisterCounter("fault_buffer_overwritten_before_use")
	cScribble     = simrt.RegisterCounter("fault_buffer_scribbled")
	cSpareCap     = simrt.RegisterCounter("fault_slice_with_spare_capacity")
	cDirtyObj     = simrt.RegisterCounter("fault_decode_into_used_value")
	cArenaWrap    = simrt.RegisterCounter("fault_arena_slot_reused")
	cRegDuring    = simrt.RegisterCounter("fault_registration_during_decode_work")
	cFrames       = simrt.RegisterCounter("op_frames_received")
	cWork         = simrt.RegisterCounter("op_frames_processed")
	cSharedJobs   = simrt.RegisterCounter("op_shared_readonly_frames")
	cMarshalArena = simrt.RegisterCounter("op_marshal_and_mic_on_frames_over_the_arena")
	cReuseText    = simrt.RegisterCounter("op_used_versus_fresh_through_unmarshaltext_and_scan")
	cOwnerUse     = simrt.RegisterCounter("used_value_has_numbers_flags_addresses_set_by_its_owner_before_the_next_decode")
	cMarshalOnly  = simrt.RegisterCounter("op_marshal_only_inspects_decoded_and_owner_set_values")
	cHandBuilt    = simrt.RegisterCounter("op_validate_and_marshal_on_hand_built_frames_in_unusual_states")
	cHandRefused  = simrt.RegisterCounter("hand_built_frame_refused_by_every_operation_tried")
	cOtherCID     = simrt.RegisterCounter("op_reuse_decode_command_then_another_cid")
	cDuplicate    = simrt.RegisterCounter("op_same_bytes_decoded_twice_for_two_workers")
	cErrChanged   = simrt.RegisterCounter("probe_kept_error_value_says_something_else_later_not_judged")
	cCrossDir     = simrt.RegisterCounter("op_used_command_value_decodes_the_other_direction")
	cErrKept      = simrt.RegisterCounter("probe_kept_error_values_read_again_later")
	cBadText      = simrt.RegisterCounter("op_decode_of_text_that_is_not_a_frame")
	cCrowd        = simrt.RegisterCounter("op_crowd_of_dozens_of_sessions_at_once")
	cCandidate    = simrt.RegisterCounter("op_second_counter_candidate_on_the_owners_frame")
	cRegEdge      = simrt.RegisterCounter("op_registration_size_0_or_refused_cid")
	cJoinReadonly = simrt.RegisterCounter("op_join_family_validate_marshal_readonly")
	cCryptoOps    = simrt.RegisterCounter("op_exported_crypto_on_arena")
	cReuseOps     = simrt.RegisterCounter("op_reuse_decodes")
	cBandOps      = simrt.RegisterCounter("op_band_mutations")
	cBandObs      = simrt.RegisterCounter("op_band_observations")
	cText         = simrt.RegisterCounter("probe_unmarshal_text")
	cJoinAccept   = simrt.RegisterCounter("probe_join_accept_decrypt_on_arena")
	cUnaligned    = simrt.RegisterCounter("probe_crypto_len_not_multiple_of_16")
	cReuseTypes   = simrt.RegisterCounter("probe_reuse_types_exercised")
	cStaleBefore  = simrt.RegisterCounter("probe_worker_ran_after_buffer_reuse")
	cScribbleOwn  = simrt.RegisterCounter("fault_owner_overwrites_its_decoded_frame")
	cOtherFrames  = simrt.RegisterCounter("op_non_data_frames_received")
	cSharedBytes  = simrt.RegisterCounter("op_shared_input_decoded_by_two_workers")
	cSettled      = simrt.RegisterCounter("op_observations_repeated_in_quiescence")
	cFunctional   = simrt.RegisterCounter("probe_functional_mismatch_not_judged")
)

const (
	jobFrame = iota
	jobShared
	jobStop
	jobOther       // join-accept / proprietary / join-request frame decoded from reused memory
	jobSharedBytes // one read-only input buffer decoded by two workers
)

// otherJob is a non-data frame decoded from the receive buffer and from a
// private copy.
type otherJob struct {
	phy, ref *lorawan.PHYPayload
	wire     []byte
	key      spec.Key
	isJA     bool
	gen      int64
}

// bytesJob is an immutable input that two workers decode concurrently.
type bytesJob struct {
	name string
	mk   func() interface{}
	up   bool
	b    []byte
}

type job struct {
	phy    *lorawan.PHYPayload // decoded from the shared buffer / arena
	ref    *lorawan.PHYPayload // decoded from a private copy
	wire   []byte              // private copy of the received bytes
	sess   pipe.Session
	fcnt32 uint32
	tx     pipe.TxParams
	truth  spec.Frame
	gen    int64 // receive-buffer generation at decode time
}

// receive-buffer generation counter (harness bookkeeping)
var bufGen int64

//go:norace
func genGet() int64 { return bufGen }

//go:norace
func genInc() { bufGen++ }

//go:norace
func genReset() { bufGen = 0 }

// obs is an outcome observed while other tasks were running, together with a
// way to recompute it in quiescence on private data (world.Finish, main
// goroutine). Isolation = the two agree. Whether the outcome is also what the
// specification says is another property's business: a disagreement with the
// functional expectation alone is counted, not judged.
type obs struct {
	what string
	got  string
	redo func() string
}

// keptErr is an error a task was handed, with the text it had at that moment.
type keptErr struct {
	err  error
	text string
}

type world struct {
	errs     [simrt.MaxTasks][]keptErr
	obs      [simrt.MaxTasks][]obs
	nWorkers int
	boxes    []*sim.Mailbox
	arena    []byte // shared crypto arena, one region per worker
	region   int
}

// fixed proprietary commands used inside frames: registered by the main
// goroutine before the tasks start and never touched by the operators (who
// register 0x80..0x83), so that frame content stays comparable
const (
	propCID  = 0x90
	propSize = 3
)

func (wd *world) observe(what, got string, redo func() string) {
	t := simrt.Current()
	if t < 0 || t >= simrt.MaxTasks {
		return
	}
	wd.obs[t] = append(wd.obs[t], obs{what, got, redo})
}

// settle runs after all tasks have ended.
func (wd *world) settle() {
	for t := range wd.obs {
		for _, o := range wd.obs[t] {
			var want string
			if sim.Guard("panic", func() { want = o.redo() }) {
				continue
			}
			simrt.Count(cSettled)
			if want != o.got {
				simrt.Report("interference:"+o.what, fmt.Sprintf("%s gave %s while other tasks were running, and %s when repeated alone on private data", o.what, o.got, want))
			}
		}
	}
}

// functional notes that the library did not do what the specification says in
// a way that is the same under concurrency and alone: not an isolation matter.
func functional(what string) {
	simrt.Count(cFunctional)
	_ = what
}

var theWD *world

func build(w *sim.World) {
	genReset()
	for _, up := range []bool{false, true} {
		if err := lorawan.RegisterProprietaryMACCommand(up, propCID, propSize); err != nil {
			panic(err)
		}
	}
	wd := &world{}
	theWD = wd
	w.Finish = append(w.Finish, wd.settle)
	if simrt.Choose(30) == 1 {
		buildCrowd(w, wd)
		return
	}
	wd.nWorkers = 2 + simrt.Choose(3)
	nPackets := 4 + simrt.Choose(28*sim.Scale)
	nRegs := simrt.Choose(5)
	wd.region = 256
	wd.arena = make([]byte, wd.region*wd.nWorkers)
	for i := 0; i < wd.nWorkers; i++ {
		wd.boxes = append(wd.boxes, sim.NewMailbox())
	}
	w.Notef("W-ISO: %d workers, %d packets, %d registrations", wd.nWorkers, nPackets, nRegs)
	rs := simrt.Raw()
	w.Spawn("receiver", func() { receiver(wd, nPackets, rs) })
	for i := 0; i < wd.nWorkers; i++ {
		i := i
		sub := simrt.Raw()
		extra := simrt.Choose(8)
		w.Spawn(fmt.Sprintf("worker%d", i), func() { worker(wd, i, sub, extra) })
	}
	nOps := 1 + simrt.Choose(2)
	for k := 0; k < nOps; k++ {
		os := simrt.Raw()
		w.Spawn(fmt.Sprintf("operator%d", k), func() { operator(nRegs, os) })
	}
}

// buildCrowd: a wide run instead of a deep one - three to five dozen tasks,
// each with a session (keys, device address) of its own, each sealing,
// validating and opening its own frames at the same time as all the others:
// "concurrent MIC/crypto operations on distinct values" at a width at which
// anything the library keeps per key or per call (a cache of cipher or CMAC
// states, a pool of scratch buffers, a bounded table) is full. Every outcome
// is repeated alone after the run (interference), the race detector watches.
func buildCrowd(w *sim.World, wd *world) {
	n := 34 + simrt.Choose(24)
	w.Notef("W-ISO (crowd): %d tasks with their own sessions", n)
	simrt.Count(cCrowd)
	for i := 0; i < n; i++ {
		i := i
		sub := simrt.Raw()
		w.Spawn(fmt.Sprintf("session%d", i), func() { crowdTask(wd, i, sub) })
	}
}

func crowdTask(wd *world, id int, sub uint64) {
	r := sim.NewRand(sub)
	s := pipe.NewSession(r, r.Intn(2) == 0)
	s.DevAddr[2], s.DevAddr[3] = byte(id>>8), byte(id)
	fcnt := uint32(r.Intn(1 << 20))
	g := spec.CmdGen{}
	for k, n := 0, 2+r.Intn(3); k < n; k++ {
		if simrt.Dead() {
			return
		}
		sim.Op()
		fcnt++
		up := r.Intn(2) == 0
		g.Up = up
		f := spec.GenFrame(r, up, s.DevAddr, fcnt, g, 60)
		if f.HasPort && f.FPort == 0 && len(f.FRMCmds) == 0 {
			f.HasPort = false
		}
		tx := pipe.TxParams{ConfFCnt: uint32(r.Intn(1 << 17)), TxDR: uint8(r.Intn(16)), TxCh: uint8(r.Intn(72))}
		wire, stage, err := pipe.Seal(&s, f.ToLib(), tx)
		if err != nil {
			functional("seal:" + stage)
			continue
		}
		simrt.Count(cWork)
		fc, sess := fcnt, s
		run := func() string {
			var p lorawan.PHYPayload
			if err := p.UnmarshalBinary(append([]byte(nil), wire...)); err != nil {
				return "undecodable"
			}
			ok, verr := pipe.Validate(&sess, &p, fc, tx)
			st, oerr := pipe.Open(&sess, &p)
			return fmt.Sprint(ok, verr == nil, st, oerr == nil, frameSig(&p))
		}
		var got string
		if sim.Guard("panic", func() { got = run() }) {
			continue
		}
		wd.observe("validate+decrypt of a session's own frame (crowd)", got, run)
	}
	simrt.Count(cNontrivial)
}

// regSeq counts the operators' completed registrations (harness bookkeeping).
var regSeq int

//go:norace
func regSeqGet() int { return regSeq }

//go:norace
func regSeqInc() { regSeq++ }

func operator(n int, sub uint64) {
	r := sim.NewRand(sub)
	for i := 0; i < n; i++ {
		simrt.Seam(3)
		up := r.Intn(2) == 0
		cid := lorawan.CID(0x80 + r.Intn(4))
		size := 1 + r.Intn(4)
		switch r.Intn(8) {
		case 0:
			// "nothing to register" (size 0) on a CID no frame of this world uses
			cid, size = lorawan.CID(0x91+r.Intn(3)), 0
			simrt.Count(cRegEdge)
		case 1:
			cid = lorawan.CID(r.Intn(0x80)) // refused: not a proprietary CID
			simrt.Count(cRegEdge)
		}
		if err := lorawan.RegisterProprietaryMACCommand(up, cid, size); err != nil {
			functional("register")
		}
		regSeqInc()
		simrt.Count(cRegDuring)
		simrt.Trace(evReg, uint64(cid), uint64(size))
	}
}

// ---------------------------------------------------------------- receiver

func receiver(wd *world, n int, sub uint64) {
	r := sim.NewRand(sub)
	// one reusable buffer and one pool arena
	single := make([]byte, 400)
	pool := make([]byte, 1024)
	poolOff := 0
	nSess := 1 + r.Intn(3)
	sessions := make([]pipe.Session, nSess)
	fcnts := make([]uint32, nSess)
	for i := range sessions {
		sessions[i] = pipe.NewSession(r, r.Intn(2) == 0)
		fcnts[i] = uint32(r.Intn(1 << 20))
	}
	g := spec.CmdGen{} // standard commands only: proprietary framing is W-REG's subject
	for k := 0; k < n; k++ {
		if simrt.Dead() {
			break
		}
		sim.Op()
		if r.Intn(4) == 0 {
			wd.recheckErrs()
		}
		if wd.nWorkers > 1 && r.Intn(8) == 0 {
			sendSharedBytes(wd, r)
			continue
		}
		if r.Intn(7) == 0 {
			recvOther(wd, r, single)
			continue
		}
		si := r.Intn(nSess)
		s := sessions[si]
		fcnts[si]++
		up := r.Intn(2) == 0
		g.Up = up
		g.Prop = map[byte]int{propCID: propSize}
		f := spec.GenFrame(r, up, s.DevAddr, fcnts[si], g, 120)
		if f.HasPort && f.FPort == 0 && len(f.FRMCmds) == 0 {
			// FPort 0 without commands is W-RADIO's (C05) subject, not isolation
			f.HasPort = false
		}
		tx := pipe.TxParams{ConfFCnt: uint32(r.Intn(1 << 17)), TxDR: uint8(r.Intn(16)), TxCh: uint8(r.Intn(72))}
		// the sender hands its own application buffer to the library
		lib := f.ToLib()
		var own, ownCopy []byte
		if f.HasPort && f.FPort > 0 && len(f.AppBytes) > 0 {
			own = append([]byte(nil), f.AppBytes...)
			ownCopy = append([]byte(nil), own...)
			lib.MACPayload.(*lorawan.MACPayload).FRMPayload = []lorawan.Payload{&lorawan.DataPayload{Bytes: own}}
		}
		wire, stage, err := pipe.Seal(&s, lib, tx)
		if own != nil && !bytes.Equal(own, ownCopy) {
			// encrypting the payload slice the caller put into the frame in
			// place stays inside what the frame was given: the statement does
			// not forbid it. Counted, not judged.
			functional("sender-buffer-encrypted-in-place")
		}
		if err != nil {
			functional("seal:" + stage)
			continue
		}
		// --- the packet lands in memory that is reused ---
		var target []byte
		text := r.Intn(6) == 0
		payload := wire
		if text {
			payload = []byte(base64.StdEncoding.EncodeToString(wire))
			simrt.Count(cText)
		}
		switch r.Intn(3) {
		case 0: // the single receive buffer (UDP loop)
			target = single[:len(payload)]
		case 1: // the same, with a cap that ends at the packet
			target = single[:len(payload):len(payload)]
		default: // a slot carved out of the pool arena; neighbours are other frames
			gap := r.Intn(8)
			if poolOff+gap+len(payload) > len(pool) {
				poolOff = 0
				simrt.Count(cArenaWrap)
			}
			poolOff += gap
			target = pool[poolOff : poolOff+len(payload)]
			poolOff += len(payload)
			simrt.Count(cSpareCap)
		}
		genInc()
		ownerWrite(target, payload)
		j := &job{wire: append([]byte(nil), wire...), sess: s, fcnt32: fcnts[si], tx: tx, truth: f, gen: genGet()}
		j.phy = &lorawan.PHYPayload{}
		j.ref = &lorawan.PHYPayload{}
		var derr, rerr error
		if text {
			derr = j.phy.UnmarshalText(target)
			rerr = j.ref.UnmarshalText(append([]byte(nil), payload...))
		} else {
			derr = j.phy.UnmarshalBinary(target)
			rerr = j.ref.UnmarshalBinary(append([]byte(nil), wire...))
		}
		if (derr == nil) != (rerr == nil) {
			simrt.Report("alias.decode:unmarshal-error", fmt.Sprintf("decoding %x from the reused buffer returns %v, from a private copy %v", wire, derr, rerr))
			continue
		}
		if derr != nil {
			functional("unmarshal")
			wd.keepErr(derr)
			continue
		}
		if !bytes.Equal(target, payload) {
			functional("decoder-wrote-input")
		}
		simrt.Count(cFrames)
		simrt.Trace(evRecv, uint64(len(wire)), uint64(j.gen))
		kind := jobFrame
		if r.Intn(5) == 0 {
			kind = jobShared
		}
		if kind == jobShared {
			// two workers inspect the same decoded frame, read-only
			a := r.Intn(wd.nWorkers)
			b := (a + 1 + r.Intn(wd.nWorkers-1)) % wd.nWorkers
			wd.boxes[a].Send(jobShared, j)
			wd.boxes[b].Send(jobShared, j)
			simrt.Count(cSharedJobs)
		} else {
			first := r.Intn(wd.nWorkers)
			wd.boxes[first].Send(jobFrame, j)
			if r.Intn(6) == 0 && wd.nWorkers > 1 {
				// the same transmission heard by a second gateway: the same
				// bytes, decoded from private memory into a value of its own,
				// handled by another worker at the same time
				d := &job{wire: append([]byte(nil), wire...), sess: s, fcnt32: fcnts[si], tx: tx, truth: f, gen: genGet()}
				d.phy, d.ref = &lorawan.PHYPayload{}, &lorawan.PHYPayload{}
				if d.phy.UnmarshalBinary(append([]byte(nil), wire...)) == nil && d.ref.UnmarshalBinary(append([]byte(nil), wire...)) == nil {
					wd.boxes[(first+1+r.Intn(wd.nWorkers-1))%wd.nWorkers].Send(jobFrame, d)
					simrt.Count(cDuplicate)
				}
			}
		}
		// explicit scribble: the caller is free to do anything with its buffer
		if r.Intn(3) == 0 {
			genInc()
			ownerWriteFill(target, byte(r.Intn(256)))
			simrt.Count(cScribble)
		}
		simrt.Seam(1)
	}
	for _, b := range wd.boxes {
		b.Send(jobStop, nil)
	}
}

// recvOther: a join-accept (still encrypted), a proprietary frame or a
// join-request lands in the reusable receive buffer, is decoded there and
// processed later by a worker.
func recvOther(wd *world, r *sim.Rand, single []byte) {
	var key spec.Key
	r.Fill(key[:])
	var wire []byte
	isJA := false
	switch r.Intn(3) {
	case 0:
		ja := &lorawan.JoinAcceptPayload{JoinNonce: lorawan.JoinNonce(r.Intn(1 << 24)), RXDelay: uint8(r.Intn(16)),
			DLSettings: lorawan.DLSettings{RX2DataRate: uint8(r.Intn(16)), RX1DROffset: uint8(r.Intn(8))}}
		r.Fill(ja.HomeNetID[:])
		r.Fill(ja.DevAddr[:])
		phy := lorawan.PHYPayload{MHDR: lorawan.MHDR{MType: lorawan.JoinAccept}, MACPayload: ja}
		var eui lorawan.EUI64
		if err := phy.SetDownlinkJoinMIC(lorawan.JoinRequestType, eui, 1, lorawan.AES128Key(key)); err != nil {
			return
		}
		if err := phy.EncryptJoinAcceptPayload(lorawan.AES128Key(key)); err != nil {
			return
		}
		wire, _ = phy.MarshalBinary()
		isJA = true
	case 1:
		wire = append([]byte{0xe0}, r.Bytes(5+r.Intn(30))...) // proprietary
	default:
		switch r.Intn(3) {
		case 0:
			wire = append([]byte{0x00}, r.Bytes(18+4)...) // join-request
		case 1:
			wire = append([]byte{0xc0, byte(2 * r.Intn(2))}, r.Bytes(13+4)...) // rejoin-request type 0 / 2
		default:
			wire = append([]byte{0xc0, 0x01}, r.Bytes(18+4)...) // rejoin-request type 1
		}
	}
	if len(wire) == 0 {
		return
	}
	target := single[:len(wire)]
	genInc()
	ownerWrite(target, wire)
	j := &otherJob{phy: &lorawan.PHYPayload{}, ref: &lorawan.PHYPayload{}, wire: append([]byte(nil), wire...), key: key, isJA: isJA, gen: genGet()}
	if err := j.phy.UnmarshalBinary(target); err != nil {
		functional("unmarshal.other")
		return
	}
	j.ref.UnmarshalBinary(append([]byte(nil), wire...))
	simrt.Count(cOtherFrames)
	wd.boxes[r.Intn(wd.nWorkers)].Send(jobOther, j)
	if r.Intn(2) == 0 {
		genInc()
		ownerWriteFill(target, byte(r.Intn(256)))
		simrt.Count(cScribble)
	}
	simrt.Seam(1)
}

func processOther(j *otherJob) {
	sim.Op()
	if genGet() != j.gen {
		simrt.Count(cOverwrite)
	}
	bA, eA := j.phy.MarshalBinary()
	bB, eB := j.ref.MarshalBinary()
	if (eA == nil) != (eB == nil) || !bytes.Equal(bA, bB) {
		simrt.Report("alias.decode:remarshal-other", fmt.Sprintf("a join-accept / proprietary / join-request frame decoded from a buffer the caller reused later re-marshals to %x, from a private copy %x", bA, bB))
		return
	}
	if !bytes.Equal(bB, j.wire) {
		functional("remarshal.other")
	}
	if j.isJA {
		simrt.Seam(2)
		eA = j.phy.DecryptJoinAcceptPayload(lorawan.AES128Key(j.key))
		eB = j.ref.DecryptJoinAcceptPayload(lorawan.AES128Key(j.key))
		if (eA == nil) != (eB == nil) || sim.DeepSig(j.phy) != sim.DeepSig(j.ref) {
			simrt.Report("alias.decode:join-accept", fmt.Sprintf("join-accept decoded from a reused buffer decrypts to %s (%v), from a private copy %s (%v)", sim.DeepSig(j.phy), eA, sim.DeepSig(j.ref), eB))
			return
		}
		var eui lorawan.EUI64
		if ok, err := j.ref.ValidateDownlinkJoinMIC(lorawan.JoinRequestType, eui, 1, lorawan.AES128Key(j.key)); !ok || err != nil {
			functional("ja.mic-after-decode")
		}
	}
	// I5 for the join family: validating the MIC and the text / JSON encoders
	// only inspect the frame (whether the MIC verifies is not the subject)
	before := sim.DeepSig(j.ref)
	var eui lorawan.EUI64
	switch j.ref.MHDR.MType {
	case lorawan.JoinRequest, lorawan.RejoinRequest, lorawan.Proprietary:
		// (the join MIC functions are the only ones that take a frame of any
		// other type; whether they accept a proprietary frame or refuse it,
		// they only inspect it)
		quiet(func() { j.ref.ValidateUplinkJoinMIC(lorawan.AES128Key(j.key)) })
		quiet(func() { j.phy.ValidateUplinkJoinMIC(lorawan.AES128Key(j.key)) })
	case lorawan.JoinAccept:
		j.ref.ValidateDownlinkJoinMIC(lorawan.JoinRequestType, eui, 1, lorawan.AES128Key(j.key))
		j.phy.ValidateDownlinkJoinMIC(lorawan.RejoinRequestType0, eui, 2, lorawan.AES128Key(j.key))
	}
	j.ref.MarshalText()
	j.ref.MarshalJSON()
	j.ref.MarshalBinary()
	simrt.Count(cJoinReadonly)
	if after := sim.DeepSig(j.ref); after != before {
		simrt.Report("readonly.modified:Validate/Marshal", fmt.Sprintf("validate/marshal changed a join-family frame: before %s after %s", before, after))
	}
}

// sendSharedBytes hands ONE immutable input buffer to two workers, which
// decode it into their own fresh values at the same time: a decoder that
// writes to its input (even transiently) races with the other decoder.
func sendSharedBytes(wd *world, r *sim.Rand) {
	var bj *bytesJob
	if r.Intn(2) == 0 {
		t := rootTypes[r.Intn(len(rootTypes))]
		bj = &bytesJob{name: t.name, mk: t.mk, up: r.Intn(2) == 0, b: t.gen(r, 2)}
	} else {
		at := appTypes[r.Intn(len(appTypes))]
		p := appPkgs[at.pkg]
		b := r.Bytes(48)
		switch at.kind {
		case 0:
			cid, up := at.cid, at.up
			bj = &bytesJob{name: p.name, mk: func() interface{} { v, _ := p.payload(up, cid); return v }, up: at.up, b: b}
		default:
			b[0] = at.cid
			bj = &bytesJob{name: p.name, mk: p.newCmd, up: at.up, b: b}
		}
	}
	a := r.Intn(wd.nWorkers)
	b := (a + 1 + r.Intn(wd.nWorkers-1)) % wd.nWorkers
	wd.boxes[a].Send(jobSharedBytes, bj)
	wd.boxes[b].Send(jobSharedBytes, bj)
	simrt.Count(cSharedBytes)
}

func processSharedBytes(bj *bytesJob) {
	sim.Op()
	v := bj.mk()
	sim.Guard("panic", func() { callUnmarshal(v, bj.up, bj.b) })
}

// ownerWrite / ownerWriteFill are the receive loop writing into memory it
// owns. The driver's race parser knows these names: a race against them means
// the library kept (or touched) memory that belongs to its caller.
//
//go:noinline
func ownerWrite(dst, src []byte) { copy(dst, src) }

//go:noinline
func ownerWriteFill(dst []byte, pat byte) {
	for i := range dst {
		dst[i] = pat
	}
}

// ownerScribbleFrame: a worker owns the frame it decoded and may do with it
// what it likes - here it writes through every pointer and slice the decoded
// value holds. If any of that memory is shared with another decoded frame,
// with the library or with the input, other tasks see their data change (and
// the race detector sees the conflicting accesses).
//
//go:noinline
func ownerScribbleFrame(phy *lorawan.PHYPayload) {
	mp, ok := phy.MACPayload.(*lorawan.MACPayload)
	if !ok {
		return
	}
	if mp.FPort != nil {
		*mp.FPort ^= 0xff
	}
	scr := func(pls []lorawan.Payload) {
		for _, p := range pls {
			switch v := p.(type) {
			case *lorawan.DataPayload:
				for i := range v.Bytes {
					v.Bytes[i] ^= 0x5a
				}
			case *lorawan.MACCommand:
				if pp, ok := v.Payload.(*lorawan.ProprietaryMACCommandPayload); ok {
					for i := range pp.Bytes {
						pp.Bytes[i] ^= 0x5a
					}
				}
			}
		}
	}
	scr(mp.FHDR.FOpts)
	scr(mp.FRMPayload)
	simrt.Count(cScribbleOwn)
}

// ------------------------------------------------------------------ worker

func worker(wd *world, id int, sub uint64, extra int) {
	r := sim.NewRand(sub)
	bw := newBandWatch(r)
	for {
		m, ok := wd.boxes[id].Recv(0)
		if !ok {
			return
		}
		switch m.Kind {
		case jobStop:
			// a few more local operations after the traffic has stopped
			for i := 0; i < extra; i++ {
				localOp(wd, id, r, bw)
			}
			return
		case jobFrame:
			processFrame(m.Data.(*job), r)
		case jobShared:
			processShared(m.Data.(*job))
		case jobOther:
			processOther(m.Data.(*otherJob))
		case jobSharedBytes:
			processSharedBytes(m.Data.(*bytesJob))
		}
		if r.Intn(2) == 0 {
			localOp(wd, id, r, bw)
		}
	}
}

// keepErr: an error the library returned is a value the caller may log later;
// what it says must not depend on what the library does in between.
func (wd *world) keepErr(err error) {
	t := simrt.Current()
	if err == nil || t < 0 || t >= simrt.MaxTasks || len(wd.errs[t]) >= 6 {
		return
	}
	var text string
	if quiet(func() { text = err.Error() }) {
		return
	}
	wd.errs[t] = append(wd.errs[t], keptErr{err, text})
}

func (wd *world) recheckErrs() {
	t := simrt.Current()
	if t < 0 || t >= simrt.MaxTasks {
		return
	}
	for _, k := range wd.errs[t] {
		var now string
		if quiet(func() { now = k.err.Error() }) {
			continue
		}
		simrt.Count(cErrKept)
		if now != k.text {
			// (no clause of the statement is about error values: counted; reading
			// the error while other tasks decode is still under the race detector)
			simrt.Count(cErrChanged)
		}
	}
	wd.errs[t] = wd.errs[t][:0]
}

// badText: decode of text that is valid base64 but not a frame (a truncated
// or foreign packet); the caller keeps the error for its log.
func badText(wd *world, r *sim.Rand) {
	n := 1 + r.Intn(8)
	if r.Intn(3) == 0 {
		n = 13 + r.Intn(40)
	}
	raw := r.Bytes(n)
	if n > 12 {
		raw[0] = byte(0x40 | r.Intn(0x80)) // a data frame that is cut short somewhere
		raw[5] |= 0x0f                     // FOptsLen 15: longer than what follows, most of the time
	}
	text := []byte(base64.StdEncoding.EncodeToString(raw))
	var p lorawan.PHYPayload
	var err error
	if quiet(func() { err = p.UnmarshalText(text) }) {
		functional("undecodable-text-crashes") // (totality is C09's subject)
		return
	}
	simrt.Count(cBadText)
	wd.keepErr(err)
}

func localOp(wd *world, id int, r *sim.Rand, bw *bandWatch) {
	sim.Op()
	if r.Intn(4) == 0 {
		badText(wd, r)
	}
	if r.Intn(3) == 0 {
		wd.recheckErrs()
	}
	switch r.Intn(5) {
	case 4:
		if r.Intn(3) == 0 {
			inspectHandBuilt(r)
		} else {
			marshalOnArena(wd, id, r)
		}
	case 0:
		cryptoOnArena(wd, id, r)
	case 1:
		reuseDecode(r)
	case 2:
		bw.step(r)
	default:
		joinAcceptOnArena(wd, id, r)
	}
}

func frameSig(phy *lorawan.PHYPayload) string { return sim.DeepSig(phy) }

// processFrame is what a worker does with a frame it owns: validate, marshal,
// decrypt - on the frame decoded from reused memory and on the private
// reference; every observable must agree (I2, I3, I5) and equal the truth.
func processFrame(j *job, r *sim.Rand) {
	sim.Op()
	simrt.Count(cWork)
	if genGet() != j.gen {
		simrt.Count(cStaleBefore)
		simrt.Count(cOverwrite)
		simrt.Count(cNontrivial)
	}
	simrt.Trace(evWork, uint64(j.gen), uint64(genGet()))
	s := j.sess

	// I5: read-only operations do not modify their operand
	before := frameSig(j.phy)
	refBefore := frameSig(j.ref)
	if r.Intn(3) == 0 {
		// the owner of a frame tries another upper half of the counter first
		// (it writes the FCnt field of ITS frame between two library calls)
		simrt.Count(cCandidate)
		pipe.Validate(&s, j.phy, j.fcnt32^0x10000, j.tx)
		okC, errC := pipe.Validate(&s, j.ref, j.fcnt32^0x10000, j.tx)
		wireC, fcC, txC := j.wire, j.fcnt32^0x10000, j.tx
		theWD.observe("Validate*DataMIC (other counter candidate)", fmt.Sprint(okC, errC == nil), func() string {
			var p lorawan.PHYPayload
			if err := p.UnmarshalBinary(append([]byte(nil), wireC...)); err != nil {
				return "undecodable"
			}
			ok, err := pipe.Validate(&s, &p, fcC, txC)
			return fmt.Sprint(ok, err == nil)
		})
	}
	okA, errA := pipe.Validate(&s, j.phy, j.fcnt32, j.tx)
	okB, errB := pipe.Validate(&s, j.ref, j.fcnt32, j.tx)
	if okA != okB || (errA == nil) != (errB == nil) {
		simrt.Report("alias.decode:mic-verdict", fmt.Sprintf("MIC verdict on the frame decoded from a reused buffer (%v,%v) differs from the verdict on a private copy (%v,%v); wire %x", okA, errA, okB, errB, j.wire))
	} else if !okB {
		functional("mic")
	}
	wd := theWD
	wire, fc, tx := j.wire, j.fcnt32, j.tx
	wd.observe("Validate*DataMIC", fmt.Sprint(okB, errB == nil), func() string {
		var p lorawan.PHYPayload
		if err := p.UnmarshalBinary(append([]byte(nil), wire...)); err != nil {
			return "undecodable"
		}
		ok, err := pipe.Validate(&s, &p, fc, tx)
		return fmt.Sprint(ok, err == nil)
	})
	simrt.Seam(2)
	// set the same full counter in the snapshot for comparison
	bA, eA := j.phy.MarshalBinary()
	bB, eB := j.ref.MarshalBinary()
	if (eA == nil) != (eB == nil) || !bytes.Equal(bA, bB) {
		simrt.Report("alias.decode:remarshal", fmt.Sprintf("re-marshalling the frame decoded from a reused buffer gives %x (%v), from a private copy %x (%v)", bA, eA, bB, eB))
	} else if eB != nil || !bytes.Equal(bB, j.wire) {
		functional("remarshal")
	}
	wd.observe("PHYPayload.MarshalBinary", fmt.Sprintf("%x %v", bB, eB == nil), func() string {
		var p lorawan.PHYPayload
		if err := p.UnmarshalBinary(append([]byte(nil), wire...)); err != nil {
			return "undecodable"
		}
		p.MACPayload.(*lorawan.MACPayload).FHDR.FCnt = fc
		b, err := p.MarshalBinary()
		return fmt.Sprintf("%x %v", b, err == nil)
	})
	tA, _ := j.phy.MarshalText()
	jA, _ := j.phy.MarshalJSON()
	_, _ = tA, jA
	j.ref.MarshalText()
	j.ref.MarshalJSON()
	if refAfter := frameSig(j.ref); stripFCnt(refBefore) != stripFCnt(refAfter) {
		simrt.Report("readonly.modified:Validate/Marshal", fmt.Sprintf("validate/marshal changed the frame: before %s after %s", refBefore, refAfter))
	}
	// FCnt was set by Validate (documented); everything else must be untouched
	after := frameSig(j.phy)
	if stripFCnt(before) != stripFCnt(after) && genGet() == j.gen {
		simrt.Report("readonly.modified:Validate/Marshal", fmt.Sprintf("validate/marshal changed the frame: before %s after %s", before, after))
	}

	// I3: overwriting encoded output does not change the frame
	if eA == nil {
		g0 := genGet()
		orig := append([]byte(nil), bA...)
		ownerWriteFill(bA, 0xa5)
		bA2, _ := j.phy.MarshalBinary()
		if !bytes.Equal(bA2, orig) && genGet() == g0 {
			simrt.Report("alias.encode:PHYPayload.MarshalBinary", fmt.Sprintf("overwriting the bytes returned by MarshalBinary changed the frame: it marshalled to %x, now %x", orig, bA2))
		}
		if t, err := j.ref.MarshalText(); err == nil {
			t0 := append([]byte(nil), t...)
			ownerWriteFill(t, '!')
			if t2, _ := j.ref.MarshalText(); !bytes.Equal(t2, t0) {
				simrt.Report("alias.encode:PHYPayload.MarshalText", "overwriting the text returned by MarshalText changed the frame")
			}
		}
	}
	simrt.Seam(2)

	// decrypt both; compare with each other and with what was sent
	stA, dA := pipe.Open(&s, j.phy)
	simrt.Seam(2)
	stB, dB := pipe.Open(&s, j.ref)
	if (dA == nil) != (dB == nil) {
		simrt.Report("alias.decode:decrypt-error", fmt.Sprintf("decrypting the frame decoded from a reused buffer: %s %v; private copy: %s %v", stA, dA, stB, dB))
		return
	}
	wd.observe("decrypt FOpts/FRMPayload", fmt.Sprintf("%s %v %s", stB, dB == nil, frameSig(j.ref)), func() string {
		var p lorawan.PHYPayload
		if err := p.UnmarshalBinary(append([]byte(nil), wire...)); err != nil {
			return "undecodable"
		}
		pipe.Validate(&s, &p, fc, tx)
		st, err := pipe.Open(&s, &p)
		return fmt.Sprintf("%s %v %s", st, err == nil, frameSig(&p))
	})
	if dB != nil {
		functional("open:" + stB)
		return
	}
	{
		// I3 on the decrypted frame (decoded MAC commands, proprietary payloads)
		sig0 := frameSig(j.ref)
		if out, err := j.ref.MarshalBinary(); err == nil {
			ownerWriteFill(out, 0x3c)
		}
		if out, err := j.ref.MarshalJSON(); err == nil {
			ownerWriteFill(out, ' ')
		}
		if sig1 := frameSig(j.ref); sig1 != sig0 {
			simrt.Report("alias.encode:decrypted-frame", fmt.Sprintf("overwriting the output of MarshalBinary/MarshalJSON changed the decrypted frame: %s -> %s", sig0, sig1))
		}
	}
	fa, okFa := spec.FromLibFrame(j.phy)
	fb, okFb := spec.FromLibFrame(j.ref)
	if !okFb {
		functional("shape")
		return
	}
	if same, _ := fb.SameContent(j.truth); !same {
		functional("content")
	}
	if !okFa {
		simrt.Report("alias.decode:content", fmt.Sprintf("frame decoded from a reused buffer decrypts to an unexpected shape: %s", frameSig(j.phy)))
		return
	}
	defer ownerScribbleFrame(j.phy)
	if same, why := fa.SameContent(fb); !same {
		where := "MACPayload.FRMPayload"
		if len(why) >= 5 && why[:5] == "fopts" {
			where = "FHDR.FOpts"
		}
		simrt.Report("alias.decode:"+where, fmt.Sprintf("the frame decoded from a buffer the caller reused later differs from the same frame decoded from a private copy (%s): %v vs %v", why, fa, fb))
	}
}

// stripFCnt removes the FCnt field from a DeepSig (Validate sets it).
func stripFCnt(s string) string {
	i := indexOf(s, "FCnt=")
	if i < 0 {
		return s
	}
	j := i
	for j < len(s) && s[j] != ' ' && s[j] != '}' {
		j++
	}
	return s[:i] + s[j:]
}

func indexOf(s, sub string) int {
	for i := 0; i+len(sub) <= len(s); i++ {
		if s[i:i+len(sub)] == sub {
			return i
		}
	}
	return -1
}

// processShared: two workers inspect the same frame with read-only
// operations only; any write by those operations is a data race (I1) and any
// change of the operand is caught by the snapshot (I5).
func processShared(j *job) {
	simrt.Trace(evShared, uint64(j.gen), 0)
	s := j.sess
	phy := j.ref // the privately decoded frame: no aliasing involved here
	before := frameSig(phy)
	uplink := j.truth.Uplink()
	var ok bool
	var err error
	// Validate* have value receivers; FCnt is NOT set here (that would be a
	// write by the harness): validate the 16-bit counter with matching params
	if uplink {
		ok, err = phy.ValidateUplinkDataMIC(s.MACVersion(), j.tx.ConfFCnt, j.tx.TxDR, j.tx.TxCh, lorawan.AES128Key(s.FNwkSInt), lorawan.AES128Key(s.SNwkSInt))
		if s.V11 {
			phy.ValidateUplinkDataMICF(lorawan.AES128Key(s.FNwkSInt))
		}
	} else {
		ok, err = phy.ValidateDownlinkDataMIC(s.MACVersion(), j.tx.ConfFCnt, lorawan.AES128Key(s.SNwkSInt))
	}
	wire, tx := j.wire, j.tx
	theWD.observe("Validate*DataMIC (shared frame)", fmt.Sprint(ok, err == nil), func() string {
		var p lorawan.PHYPayload
		if err := p.UnmarshalBinary(append([]byte(nil), wire...)); err != nil {
			return "undecodable"
		}
		var ok bool
		var err error
		if uplink {
			ok, err = p.ValidateUplinkDataMIC(s.MACVersion(), tx.ConfFCnt, tx.TxDR, tx.TxCh, lorawan.AES128Key(s.FNwkSInt), lorawan.AES128Key(s.SNwkSInt))
		} else {
			ok, err = p.ValidateDownlinkDataMIC(s.MACVersion(), tx.ConfFCnt, lorawan.AES128Key(s.SNwkSInt))
		}
		return fmt.Sprint(ok, err == nil)
	})
	simrt.Seam(4)
	b, err := phy.MarshalBinary()
	theWD.observe("PHYPayload.MarshalBinary (shared frame)", fmt.Sprintf("%x %v", b, err == nil), func() string {
		var p lorawan.PHYPayload
		if err := p.UnmarshalBinary(append([]byte(nil), wire...)); err != nil {
			return "undecodable"
		}
		b, err := p.MarshalBinary()
		return fmt.Sprintf("%x %v", b, err == nil)
	})
	simrt.Seam(4)
	phy.MarshalText()
	phy.MarshalJSON()
	if after := frameSig(phy); after != before {
		simrt.Report("readonly.modified:shared", fmt.Sprintf("read-only operations changed a shared frame: before %s after %s", before, after))
	}
}

// ---------------------------------------------------------------- I4 spill

func fillCanary(b []byte, r *sim.Rand) {
	r.Fill(b)
}

// cryptoOnArena runs the exported EncryptFRMPayload / EncryptFOpts on a
// window of the worker's arena region; the window may end exactly at the
// region border, so that a spill lands in the neighbour's region.
func cryptoOnArena(wd *world, id int, r *sim.Rand) {
	simrt.Count(cCryptoOps)
	reg := wd.arena[id*wd.region : (id+1)*wd.region]
	fillCanary(reg, r)
	var n int
	fopts := r.Intn(3) == 0
	if fopts {
		n = r.Intn(16)
	} else {
		switch r.Intn(4) {
		case 0:
			n = 16 * r.Intn(4)
		case 1:
			n = 1 + r.Intn(15)
		default:
			n = r.Intn(100)
		}
	}
	if n%16 != 0 {
		simrt.Count(cUnaligned)
	}
	off := r.Intn(wd.region - n - 32)
	if r.Intn(3) == 0 && id+1 < wd.nWorkers {
		off = wd.region - n // ends at the border: spare capacity is the neighbour's region
	}
	base := id*wd.region + off
	win := wd.arena[base : base+n] // cap runs to the end of the shared arena
	snapshot := append([]byte(nil), reg...)
	plain := append([]byte(nil), win...)
	var key spec.Key
	r.Fill(key[:])
	var addr [4]byte
	r.Fill(addr[:])
	fcnt := uint32(r.U64())
	up := r.Intn(2) == 0
	var addrLE [4]byte
	copy(addrLE[:], spec.Reverse(addr[:]))
	var got []byte
	var err error
	var want []byte
	name := "EncryptFRMPayload"
	afc := false
	if fopts {
		name = "EncryptFOpts"
		afc = r.Intn(2) == 0
		got, err = lorawan.EncryptFOpts(lorawan.AES128Key(key), afc, up, lorawan.DevAddr(addr), fcnt, win)
		want = spec.FOptsXOR(key, afc, up, addrLE, fcnt, plain)
	} else {
		got, err = lorawan.EncryptFRMPayload(lorawan.AES128Key(key), up, lorawan.DevAddr(addr), fcnt, win)
		want = spec.FRMKeystreamXOR(key, up, addrLE, fcnt, plain)
	}
	simrt.Trace(evCrypto, uint64(n), uint64(off))
	{
		k, a, fc, pl, isF, afcv := key, addr, fcnt, plain, fopts, afc
		wd.observe(name, fmt.Sprintf("%x %v", got, err == nil), func() string {
			in := append([]byte(nil), pl...)
			var out []byte
			var err error
			if isF {
				out, err = lorawan.EncryptFOpts(lorawan.AES128Key(k), afcv, up, lorawan.DevAddr(a), fc, in)
			} else {
				out, err = lorawan.EncryptFRMPayload(lorawan.AES128Key(k), up, lorawan.DevAddr(a), fc, in)
			}
			return fmt.Sprintf("%x %v", out, err == nil)
		})
	}
	if err != nil {
		functional("crypto:" + name)
		return
	}
	if !bytes.Equal(got, want) {
		functional("crypto.value:" + name)
	}
	// everything outside the window must be untouched (own region; the
	// neighbour's region is watched by the race detector and by the
	// neighbour's own snapshot)
	for i := range reg {
		if i >= off && i < off+n {
			continue
		}
		if reg[i] != snapshot[i] {
			simrt.Report("spill:"+name, fmt.Sprintf("%s on a %d-byte slice with spare capacity modified byte %d beyond it (offset %d, window %d..%d)", name, n, i-(off+n), i, off, off+n))
			return
		}
	}
	if off+n == wd.region && base+n+16 <= len(wd.arena) {
		// look across the border without racing: compare with what the
		// neighbour is guaranteed not to be writing right now is not
		// possible, so only the race detector judges that part
	}
}

// joinAcceptOnArena: DecryptJoinAcceptPayload on a DataPayload whose Bytes
// are a window with spare capacity.
func joinAcceptOnArena(wd *world, id int, r *sim.Rand) {
	simrt.Count(cJoinAccept)
	var key spec.Key
	r.Fill(key[:])
	ja := &lorawan.JoinAcceptPayload{JoinNonce: lorawan.JoinNonce(r.Intn(1 << 24)), RXDelay: uint8(r.Intn(16)),
		DLSettings: lorawan.DLSettings{RX2DataRate: uint8(r.Intn(16)), RX1DROffset: uint8(r.Intn(8))}}
	r.Fill(ja.HomeNetID[:])
	r.Fill(ja.DevAddr[:])
	if r.Intn(2) == 0 {
		ja.CFList = &lorawan.CFList{CFListType: lorawan.CFListChannel, Payload: &lorawan.CFListChannelPayload{Channels: [5]uint32{867100000, 867300000, 867500000, 0, 0}}}
	}
	phy := lorawan.PHYPayload{MHDR: lorawan.MHDR{MType: lorawan.JoinAccept}, MACPayload: ja}
	var eui lorawan.EUI64
	if err := phy.SetDownlinkJoinMIC(lorawan.JoinRequestType, eui, 1, lorawan.AES128Key(key)); err != nil {
		functional("ja.mic")
		return
	}
	if err := phy.EncryptJoinAcceptPayload(lorawan.AES128Key(key)); err != nil {
		functional("ja.encrypt")
		return
	}
	ct := phy.MACPayload.(*lorawan.DataPayload).Bytes
	reg := wd.arena[id*wd.region : (id+1)*wd.region]
	fillCanary(reg, r)
	off := r.Intn(wd.region - len(ct) - 16)
	copy(reg[off:], ct)
	snapshot := append([]byte(nil), reg...)
	rx := lorawan.PHYPayload{MHDR: phy.MHDR, MACPayload: &lorawan.DataPayload{Bytes: reg[off : off+len(ct)]}, MIC: phy.MIC}
	derr := rx.DecryptJoinAcceptPayload(lorawan.AES128Key(key))
	{
		ctc, mic, k, hdr := append([]byte(nil), ct...), phy.MIC, key, phy.MHDR
		wd.observe("DecryptJoinAcceptPayload", fmt.Sprintf("%v %s", derr == nil, sim.DeepSig(rx.MACPayload)), func() string {
			p := lorawan.PHYPayload{MHDR: hdr, MACPayload: &lorawan.DataPayload{Bytes: append([]byte(nil), ctc...)}, MIC: mic}
			err := p.DecryptJoinAcceptPayload(lorawan.AES128Key(k))
			return fmt.Sprintf("%v %s", err == nil, sim.DeepSig(p.MACPayload))
		})
	}
	if derr != nil {
		functional("ja.decrypt")
		return
	}
	if got, ok := rx.MACPayload.(*lorawan.JoinAcceptPayload); !ok || sim.DeepSig(got) != sim.DeepSig(ja) {
		functional("ja.value")
	}
	if !bytes.Equal(reg, snapshot) {
		for i := range reg {
			if i >= off && i < off+len(ct) {
				continue // inside the slice it was given
			}
			if reg[i] != snapshot[i] {
				simrt.Report("spill:DecryptJoinAcceptPayload", fmt.Sprintf("DecryptJoinAcceptPayload modified byte at offset %d of the caller's arena (ciphertext window %d..%d)", i, off, off+len(ct)))
				break
			}
		}
	}
}

// quiet runs f and reports whether it panicked (the step-cap unwinding of the
// simulator passes through).
func quiet(f func()) (panicked bool) {
	defer func() {
		if r := recover(); r != nil {
			if _, ok := r.(simrt.StepCapPanic); ok {
				panic(r)
			}
			panicked = true
		}
	}()
	f()
	return false
}

// marshalOnArena: frames whose byte-slice members (an undecoded FOpts or
// FRMPayload, a proprietary payload, a CFList carried as raw bytes) are
// windows of the worker's arena region with spare capacity behind them go
// through the operations that only inspect a frame - marshal (binary, text,
// JSON), set / validate MIC. Nothing in the arena may change: not the windows
// (they are part of the inspected frame) and not the memory around them.
func marshalOnArena(wd *world, id int, r *sim.Rand) {
	simrt.Count(cMarshalArena)
	reg := wd.arena[id*wd.region : (id+1)*wd.region]
	fillCanary(reg, r)
	next := 0
	window := func(n int) []byte {
		gap := r.Intn(8)
		if next+gap+n > len(reg)-40 {
			return make([]byte, n)
		}
		next += gap
		w := reg[next : next+n] // capacity runs on into the region
		next += n
		return w
	}
	var key spec.Key
	r.Fill(key[:])
	var eui lorawan.EUI64
	r.Fill(eui[:])
	var phy lorawan.PHYPayload
	what := ""
	var ops []func()
	switch r.Intn(3) {
	case 0:
		what = "join-accept with a raw CFList"
		n := []int{15, 15, 15, 0, 10, 16, 24}[r.Intn(7)]
		ja := &lorawan.JoinAcceptPayload{JoinNonce: lorawan.JoinNonce(r.Intn(1 << 24)), RXDelay: uint8(r.Intn(16)),
			CFList: &lorawan.CFList{CFListType: lorawan.CFListType(r.Intn(2)), Payload: &lorawan.DataPayload{Bytes: window(n)}}}
		r.Fill(ja.HomeNetID[:])
		r.Fill(ja.DevAddr[:])
		phy = lorawan.PHYPayload{MHDR: lorawan.MHDR{MType: lorawan.JoinAccept}, MACPayload: ja}
		ops = append(ops,
			func() { phy.SetDownlinkJoinMIC(lorawan.JoinRequestType, eui, 5, lorawan.AES128Key(key)) },
			func() { phy.ValidateDownlinkJoinMIC(lorawan.JoinRequestType, eui, 5, lorawan.AES128Key(key)) },
			func() { ja.MarshalBinary() },
			func() { ja.CFList.MarshalBinary() })
	case 1:
		what = "proprietary frame"
		phy = lorawan.PHYPayload{MHDR: lorawan.MHDR{MType: lorawan.Proprietary}, MACPayload: &lorawan.DataPayload{Bytes: window(r.Intn(40))}}
	default:
		what = "data frame with undecoded FOpts / FRMPayload"
		up := r.Intn(2) == 0
		mt := lorawan.UnconfirmedDataDown
		if up {
			mt = lorawan.ConfirmedDataUp
		}
		mp := &lorawan.MACPayload{FHDR: lorawan.FHDR{FCnt: uint32(r.Intn(1 << 20))}}
		r.Fill(mp.FHDR.DevAddr[:])
		if r.Intn(2) == 0 {
			mp.FHDR.FOpts = []lorawan.Payload{&lorawan.DataPayload{Bytes: window(1 + r.Intn(15))}}
		}
		if r.Intn(3) != 0 {
			port := uint8(r.Intn(3))
			mp.FPort = &port
			mp.FRMPayload = []lorawan.Payload{&lorawan.DataPayload{Bytes: window(r.Intn(60))}}
		}
		phy = lorawan.PHYPayload{MHDR: lorawan.MHDR{MType: mt}, MACPayload: mp}
		ver := lorawan.MACVersion(r.Intn(2))
		k2 := lorawan.AES128Key(key)
		if up {
			ops = append(ops,
				func() { phy.SetUplinkDataMIC(ver, 3, 1, 2, k2, k2) },
				func() { phy.ValidateUplinkDataMIC(ver, 3, 1, 2, k2, k2) },
				func() { phy.ValidateUplinkDataMICF(k2) })
		} else {
			ops = append(ops,
				func() { phy.SetDownlinkDataMIC(ver, 3, k2) },
				func() { phy.ValidateDownlinkDataMIC(ver, 3, k2) })
		}
	}
	ops = append(ops, func() { phy.MarshalBinary() }, func() { phy.MarshalText() }, func() { phy.MarshalJSON() })
	snapshot := append([]byte(nil), reg...)
	for i := 0; i < 3; i++ {
		op := ops[r.Intn(len(ops))]
		if quiet(op) {
			functional("marshal-on-arena:panic") // totality is not this property's subject
			return
		}
	}
	if !bytes.Equal(reg, snapshot) {
		for i := range reg {
			if reg[i] != snapshot[i] {
				simrt.Report("spill:Marshal/Validate", fmt.Sprintf("marshal / MIC operations on a %s changed byte %d of the caller's memory that holds the frame's byte slices (frame %s)", what, i, sim.DeepSig(&phy)))
				break
			}
		}
	}
}

// inspectHandBuilt: a frame value assembled field by field (not decoded), with
// members in states a decoder never produces - a rejoin-request whose
// RejoinType member was left blank or does not fit its payload type, a
// message type that does not fit the payload, a port without payload, a
// payload without port, more FOpts than fit, a CFList of an unknown type.
// The operations that only inspect a frame (Validate*MIC, Marshal*) may
// refuse such a value; they do not repair it.
func inspectHandBuilt(r *sim.Rand) {
	simrt.Count(cHandBuilt)
	var key spec.Key
	r.Fill(key[:])
	k := lorawan.AES128Key(key)
	var eui lorawan.EUI64
	r.Fill(eui[:])
	var phy lorawan.PHYPayload
	r.Fill(phy.MIC[:])
	mtypes := []lorawan.MType{lorawan.JoinRequest, lorawan.JoinAccept, lorawan.UnconfirmedDataUp, lorawan.UnconfirmedDataDown,
		lorawan.ConfirmedDataUp, lorawan.ConfirmedDataDown, lorawan.RejoinRequest, lorawan.Proprietary}
	fits := r.Intn(4) != 0
	switch r.Intn(6) {
	case 0:
		pl := &lorawan.RejoinRequestType1Payload{RejoinType: lorawan.JoinType(r.Intn(4)), RJCount1: uint16(r.Intn(1 << 16))}
		if r.Intn(3) == 0 {
			pl.RejoinType = lorawan.JoinType(r.Intn(256))
		}
		r.Fill(pl.JoinEUI[:])
		r.Fill(pl.DevEUI[:])
		phy.MHDR.MType, phy.MACPayload = lorawan.RejoinRequest, pl
	case 1:
		pl := &lorawan.RejoinRequestType02Payload{RejoinType: lorawan.JoinType(r.Intn(4)), RJCount0: uint16(r.Intn(1 << 16))}
		if r.Intn(3) == 0 {
			pl.RejoinType = lorawan.JoinType(r.Intn(256))
		}
		r.Fill(pl.NetID[:])
		r.Fill(pl.DevEUI[:])
		phy.MHDR.MType, phy.MACPayload = lorawan.RejoinRequest, pl
	case 2:
		pl := &lorawan.JoinRequestPayload{DevNonce: lorawan.DevNonce(r.Intn(1 << 16))}
		r.Fill(pl.JoinEUI[:])
		r.Fill(pl.DevEUI[:])
		phy.MHDR.MType, phy.MACPayload = lorawan.JoinRequest, pl
	case 3:
		ja := &lorawan.JoinAcceptPayload{JoinNonce: lorawan.JoinNonce(r.Intn(1 << 24)), RXDelay: uint8(r.Intn(256)),
			DLSettings: lorawan.DLSettings{RX2DataRate: uint8(r.Intn(20)), RX1DROffset: uint8(r.Intn(10)), OptNeg: r.Intn(2) == 0}}
		r.Fill(ja.HomeNetID[:])
		r.Fill(ja.DevAddr[:])
		switch r.Intn(4) {
		case 0:
			ja.CFList = &lorawan.CFList{CFListType: lorawan.CFListType(r.Intn(4))} // no payload
		case 1:
			ja.CFList = &lorawan.CFList{CFListType: lorawan.CFListType(r.Intn(4)), Payload: &lorawan.DataPayload{Bytes: r.Bytes(r.Intn(20))}}
		case 2:
			ch := &lorawan.CFListChannelPayload{}
			for i := range ch.Channels {
				ch.Channels[i] = uint32(r.Intn(1<<24)) * 100
				if r.Intn(4) == 0 {
					ch.Channels[i] += uint32(1 + r.Intn(99)) // off the 100 Hz grid
				}
			}
			ja.CFList = &lorawan.CFList{CFListType: lorawan.CFListType(r.Intn(2)), Payload: ch}
		}
		phy.MHDR.MType, phy.MACPayload = lorawan.JoinAccept, ja
	default:
		mp := &lorawan.MACPayload{FHDR: lorawan.FHDR{FCnt: uint32(r.Intn(1 << 30)), FCtrl: lorawan.FCtrl{ADR: r.Intn(2) == 0, ACK: r.Intn(2) == 0}}}
		r.Fill(mp.FHDR.DevAddr[:])
		switch r.Intn(5) {
		case 0: // port without payload
			port := uint8(r.Intn(256))
			mp.FPort = &port
		case 1: // payload without port
			mp.FRMPayload = []lorawan.Payload{&lorawan.DataPayload{Bytes: r.Bytes(1 + r.Intn(20))}}
		case 2: // more FOpts than the header can carry
			mp.FHDR.FOpts = []lorawan.Payload{&lorawan.DataPayload{Bytes: r.Bytes(16 + r.Intn(10))}}
		case 3: // MAC commands in both places
			port := uint8(0)
			mp.FPort = &port
			mp.FHDR.FOpts = []lorawan.Payload{&lorawan.MACCommand{CID: lorawan.LinkCheckReq}}
			mp.FRMPayload = []lorawan.Payload{&lorawan.MACCommand{CID: lorawan.DevStatusReq}}
		default: // a command without the payload its CID asks for
			mp.FHDR.FOpts = []lorawan.Payload{&lorawan.MACCommand{CID: lorawan.LinkADRReq}}
		}
		phy.MHDR.MType, phy.MACPayload = mtypes[2+r.Intn(4)], mp
	}
	if !fits {
		phy.MHDR.MType = mtypes[r.Intn(len(mtypes))]
	}
	if r.Intn(8) == 0 {
		phy.MHDR.Major = lorawan.Major(1 + r.Intn(3))
	}
	ver := lorawan.MACVersion(r.Intn(2))
	ops := []func() error{
		func() error { _, e := phy.ValidateUplinkJoinMIC(k); return e },
		func() error { _, e := phy.ValidateDownlinkJoinMIC(lorawan.JoinType(r.Intn(4)), eui, lorawan.DevNonce(r.Intn(1<<16)), k); return e },
		func() error { _, e := phy.ValidateUplinkDataMIC(ver, uint32(r.Intn(1<<16)), 1, 2, k, k); return e },
		func() error { _, e := phy.ValidateUplinkDataMICF(k); return e },
		func() error { _, e := phy.ValidateDownlinkDataMIC(ver, uint32(r.Intn(1<<16)), k); return e },
		func() error { _, e := phy.MarshalBinary(); return e },
		func() error { _, e := phy.MarshalText(); return e },
		func() error { _, e := phy.MarshalJSON(); return e },
		func() error { _, e := phy.MACPayload.MarshalBinary(); return e },
	}
	before := sim.DeepSig(&phy)
	refused := 0
	for i := 0; i < 4; i++ {
		var err error
		op := ops[r.Intn(len(ops))]
		if quiet(func() { err = op() }) {
			functional("hand-built:panic") // totality is not this property's subject
			break
		}
		if err != nil {
			refused++
		}
		if after := sim.DeepSig(&phy); after != before {
			simrt.Report("readonly.modified:hand-built", fmt.Sprintf("a validate / marshal operation changed a hand-built frame it only inspects: before %s after %s (err=%v)", before, after, err))
			return
		}
	}
	if refused == 4 {
		simrt.Count(cHandRefused)
	}
}

// --------------------------------------------------------------- I7 bands

var bandNames = []band.Name{band.EU868, band.US915, band.AU915, band.AS923, band.CN470, band.CN779, band.EU433, band.KR920, band.IN865, band.RU864, band.ISM2400, band.AS923_2, band.AS923_3, band.AS923_4}

type bandWatch struct {
	name band.Name
	mine band.Band // mutated
	ref  band.Band // never mutated; from a separate GetConfig call
	obs0 string
}

func newBandWatch(r *sim.Rand) *bandWatch {
	bw := &bandWatch{name: bandNames[r.Intn(len(bandNames))]}
	rep := r.Intn(2) == 0
	dt := lorawan.DwellTime(r.Intn(2))
	var err error
	bw.mine, err = band.GetConfig(bw.name, rep, dt)
	if err != nil {
		functional("band.config")
		return bw
	}
	bw.ref, _ = band.GetConfig(bw.name, rep, dt)
	bw.obs0 = observeBand(bw.ref)
	return bw
}

// observeBand reads every channel-related observable of a band.
func observeBand(b band.Band) string {
	// (index lists as sets, a plan by its effect, an error by its presence: a
	// band may order its answers differently from call to call)
	set := func(a []int) []int {
		a = append([]int(nil), a...)
		for i := 1; i < len(a); i++ {
			for j := i; j > 0 && a[j-1] > a[j]; j-- {
				a[j-1], a[j] = a[j], a[j-1]
			}
		}
		return a
	}
	all := set(b.GetUplinkChannelIndices())
	s := fmt.Sprint(all, set(b.GetStandardUplinkChannelIndices()), set(b.GetCustomUplinkChannelIndices()),
		set(b.GetEnabledUplinkChannelIndices()), set(b.GetDisabledUplinkChannelIndices()), set(b.GetEnabledUplinkDataRates()))
	for _, i := range all {
		c, err := b.GetUplinkChannel(i)
		s += fmt.Sprintf("|%d:%v:%v", i, c, err != nil)
	}
	for i := 0; i < 100; i++ {
		c, err := b.GetDownlinkChannel(i)
		if err != nil {
			break
		}
		s += fmt.Sprintf("|d%d:%v", i, c)
	}
	if cf := b.GetCFList(band.LoRaWAN_1_0_4); cf != nil {
		s += sim.DeepSig(cf)
	}
	// (what a device with channels 0 and 1 ends up with after a request that
	// leaves only channel 0 of the first block on: asked first, so that it is
	// the first apply call after whatever the other instance's owner did)
	got0, err0 := b.GetEnabledUplinkChannelIndicesForLinkADRReqPayloads([]int{0, 1}, []lorawan.LinkADRReqPayload{{ChMask: lorawan.ChMask{true}}})
	s += fmt.Sprint(set(got0), err0 != nil)
	dev := []int{0, 1, 2}
	pls := b.GetLinkADRReqPayloadsForEnabledUplinkChannelIndices(dev)
	eff, perr := b.GetEnabledUplinkChannelIndicesForLinkADRReqPayloads(dev, pls)
	s += fmt.Sprint(len(pls) == 0, set(eff), perr != nil)
	// (what a device with channels 0 and 1 ends up with after a request that
	// leaves only channel 0 of the first block on)
	got, err := b.GetEnabledUplinkChannelIndicesForLinkADRReqPayloads([]int{0, 1}, []lorawan.LinkADRReqPayload{{ChMask: lorawan.ChMask{true}}})
	s += fmt.Sprint(set(got), err != nil)
	simrt.Count(cBandObs)
	return s
}

var cBandRefused = simrt.RegisterCounter("op_linkadr_request_the_band_refuses")
var cBandScribble = simrt.RegisterCounter("fault_owner_edits_band_results_it_was_handed")

// ownerWriteIdx: what every caller may do with a slice it was handed - append
// to it: the append lands in the spare capacity behind the slice, if there is
// any, and that memory must not be anybody else's. The elements the caller
// WAS given are left alone: whether results are the caller's to edit is in no
// statement (a library may hand out capacity-clipped windows on a table it
// never writes again; such a table is not mutable state of any band).
func ownerWriteIdx(s []int, r *sim.Rand) {
	n := len(s)
	s = s[:cap(s)]
	for i := n; i < len(s); i++ {
		s[i] = 64 + i
	}
}

func ownerWriteMasks(m []lorawan.ChMask) {
	spare := m[len(m):cap(m)]
	for i := range spare {
		for j := range spare[i] {
			spare[i][j] = !spare[i][j]
		}
	}
}

func (bw *bandWatch) scribble(r *sim.Rand) {
	for _, s := range [][]int{bw.mine.GetUplinkChannelIndices(), bw.mine.GetStandardUplinkChannelIndices(), bw.mine.GetCustomUplinkChannelIndices(),
		bw.mine.GetEnabledUplinkChannelIndices(), bw.mine.GetDisabledUplinkChannelIndices(), bw.mine.GetEnabledUplinkDataRates()} {
		ownerWriteIdx(s, r)
	}
	if cf := bw.mine.GetCFList(band.LoRaWAN_1_0_4); cf != nil {
		if pl, ok := cf.Payload.(*lorawan.CFListChannelMaskPayload); ok && pl != nil {
			ownerWriteMasks(pl.ChannelMasks)
		}
	}
	for _, pl := range bw.mine.GetLinkADRReqPayloadsForEnabledUplinkChannelIndices([]int{0, 1, 2}) {
		_ = pl
	}
}

func (bw *bandWatch) step(r *sim.Rand) {
	if bw.mine == nil || bw.ref == nil {
		return
	}
	simrt.Count(cBandOps)
	// (the owner's own instance may be in any state after the owner has edited
	// what it was handed; what this world judges is the OTHER instance)
	n := 0
	quiet(func() { n = len(bw.mine.GetUplinkChannelIndices()) })
	if r.Intn(5) == 0 {
		// a request the band must refuse (it names a channel the plan does not
		// have): the error path of the owner's instance
		simrt.Count(cBandRefused)
		bad := lorawan.LinkADRReqPayload{ChMask: lorawan.ChMask{true, true, true, false, false, false, false, false, false, false, false, false, false, false, true, true}, Redundancy: lorawan.Redundancy{ChMaskCntl: uint8(r.Intn(6))}}
		quiet(func() {
			bw.mine.GetEnabledUplinkChannelIndicesForLinkADRReqPayloads([]int{0, 1, 2}, []lorawan.LinkADRReqPayload{bad})
		})
	}
	switch r.Intn(4) {
	case 3:
		// the owner of one instance appends to results it was handed (the spare
		// capacity behind them is nobody else's memory)
		simrt.Count(cBandScribble)
		quiet(func() { bw.scribble(r) })
	case 0:
		quiet(func() { bw.mine.AddChannel(uint32(867100000+200000*r.Intn(20)), 0, 5) })
	case 1:
		quiet(func() { bw.mine.DisableUplinkChannelIndex(r.Intn(n)) })
	default:
		quiet(func() { bw.mine.EnableUplinkChannelIndex(r.Intn(n)) })
	}
	simrt.Seam(5)
	simrt.Trace(evBand, uint64(n), 0)
	if now := observeBand(bw.ref); now != bw.obs0 {
		simrt.Report("band.shared-state:"+string(bw.name), fmt.Sprintf("mutating one %s instance changed another obtained from a separate GetConfig call: %s -> %s", bw.name, bw.obs0, now))
		bw.obs0 = now
	}
}
