package iso

import (
	"bytes"
	"fmt"
	"reflect"

	"github.com/brocaar/lorawan"
	"github.com/brocaar/lorawan/applayer/clocksync"
	"github.com/brocaar/lorawan/applayer/firmwaremanagement"
	"github.com/brocaar/lorawan/applayer/fragmentation"
	"github.com/brocaar/lorawan/applayer/multicastsetup"

	"verif/sim"
	"verif/simrt"
	"verif/spec"
)

// I6: decoding into a value that already decoded another valid message must
// give the same result as decoding into a fresh value.

type ub1 interface{ UnmarshalBinary([]byte) error }
type ub2 interface {
	UnmarshalBinary(bool, []byte) error
}

func callUnmarshal(v interface{}, up bool, b []byte) error {
	switch x := v.(type) {
	case ub2:
		return x.UnmarshalBinary(up, b)
	case ub1:
		return x.UnmarshalBinary(b)
	}
	panic(fmt.Sprintf("iso: %T has no UnmarshalBinary", v))
}

type reuseType struct {
	name string
	mk   func() interface{}
	// gen returns an input; flavour 0 = "rich" (many bits set / long),
	// 1 = "poor" (zeros / short), 2 = random
	gen func(r *sim.Rand, flavour int) []byte
}

func fixed(n int) func(r *sim.Rand, fl int) []byte {
	return func(r *sim.Rand, fl int) []byte {
		b := make([]byte, n)
		switch fl {
		case 0:
			for i := range b {
				b[i] = 0xff
			}
		case 1:
		default:
			r.Fill(b)
		}
		return b
	}
}

// lens: flavour 0 uses the longest, 1 the shortest, 2 a random one.
func lens(ls ...int) func(r *sim.Rand, fl int) []byte {
	return func(r *sim.Rand, fl int) []byte {
		n := ls[r.Intn(len(ls))]
		if fl == 0 {
			n = ls[len(ls)-1]
		} else if fl == 1 {
			n = ls[0]
		}
		b := make([]byte, n)
		if fl != 1 {
			r.Fill(b)
		}
		return b
	}
}

func genMACPayload(r *sim.Rand, fl int) []byte {
	k := r.Intn(16)
	var rest int
	switch fl {
	case 0:
		k = 1 + r.Intn(15)
		rest = 2 + r.Intn(20)
	case 1:
		k = 0
		rest = 0
	default:
		rest = r.Intn(24)
	}
	b := make([]byte, 7+k+rest)
	r.Fill(b)
	b[4] = b[4]&0xf0 | byte(k)
	if rest > 1 && k > 0 && b[7+k] == 0 {
		b[7+k] = 1 // FPort 0 together with FOpts is refused
	}
	return b
}

func genFHDR(r *sim.Rand, fl int) []byte {
	k := r.Intn(16)
	if fl == 0 {
		k = 1 + r.Intn(15)
	} else if fl == 1 {
		k = 0
	}
	b := make([]byte, 7+k)
	r.Fill(b)
	b[4] = b[4]&0xf0 | byte(k)
	return b
}

func genPHY(r *sim.Rand, fl int) []byte {
	switch {
	case fl == 1:
		// bare data frame
		b := append([]byte{0x40}, genMACPayload(r, 1)...)
		return append(b, 1, 2, 3, 4)
	case fl == 0:
		b := append([]byte{0x80}, genMACPayload(r, 0)...)
		return append(b, r.Bytes(4)...)
	}
	if r.Intn(4) == 0 {
		// the same frames with the RFU and Major bits of the MHDR set
		// (decoders take them; nothing but R1 is defined)
		b := genPHY(r, fl)
		b[0] |= byte(1 + r.Intn(31))
		return b
	}
	switch r.Intn(4) {
	case 0: // join-request
		return append([]byte{0x00}, r.Bytes(18+4)...)
	case 1: // join-accept
		return append([]byte{0x20}, r.Bytes(12+4)...)
	case 2: // rejoin type 1
		b := append([]byte{0xc0, 0x01}, r.Bytes(18+4)...)
		return b
	default:
		b := append([]byte{byte(0x40 + 0x20*r.Intn(4))}, genMACPayload(r, 2)...)
		return append(b, r.Bytes(4)...)
	}
}

func genCmdStream(up bool) func(r *sim.Rand, fl int) []byte {
	return func(r *sim.Rand, fl int) []byte {
		g := spec.CmdGen{Up: up}
		n := 1 + r.Intn(20)
		if fl == 1 {
			n = 1 + r.Intn(3)
		}
		cs := g.GenCmds(r, n, 10)
		return spec.EncodeStreamSpec(cs)
	}
}

var rootTypes = func() []reuseType {
	ts := []reuseType{
		{"PHYPayload", func() interface{} { return &lorawan.PHYPayload{} }, genPHY},
		{"MACPayload", func() interface{} { return &lorawan.MACPayload{} }, genMACPayload},
		{"FHDR", func() interface{} { return &lorawan.FHDR{} }, genFHDR},
		{"FCtrl", func() interface{} { return &lorawan.FCtrl{} }, fixed(1)},
		{"MHDR", func() interface{} { return &lorawan.MHDR{} }, fixed(1)},
		{"DataPayload", func() interface{} { return &lorawan.DataPayload{} }, lens(0, 3, 17)},
		{"JoinRequestPayload", func() interface{} { return &lorawan.JoinRequestPayload{} }, fixed(18)},
		{"JoinAcceptPayload", func() interface{} { return &lorawan.JoinAcceptPayload{} }, lens(12, 28)},
		{"RejoinRequestType02Payload", func() interface{} { return &lorawan.RejoinRequestType02Payload{} }, fixed(14)},
		{"RejoinRequestType1Payload", func() interface{} { return &lorawan.RejoinRequestType1Payload{} }, fixed(19)},
		{"CFList", func() interface{} { return &lorawan.CFList{} }, func(r *sim.Rand, fl int) []byte {
			b := fixed(16)(r, fl)
			b[15] = byte(r.Intn(2))
			return b
		}},
		{"CFListChannelPayload", func() interface{} { return &lorawan.CFListChannelPayload{} }, lens(3, 9, 15)},
		{"CFListChannelMaskPayload", func() interface{} { return &lorawan.CFListChannelMaskPayload{} }, lens(2, 8, 12)},
		{"ChMask", func() interface{} { return &lorawan.ChMask{} }, fixed(2)},
		{"DLSettings", func() interface{} { return &lorawan.DLSettings{} }, fixed(1)},
		{"Redundancy", func() interface{} { return &lorawan.Redundancy{} }, fixed(1)},
		{"DevAddr", func() interface{} { return &lorawan.DevAddr{} }, fixed(4)},
		{"EUI64", func() interface{} { return &lorawan.EUI64{} }, fixed(8)},
		{"NetID", func() interface{} { return &lorawan.NetID{} }, fixed(3)},
		{"AES128Key", func() interface{} { return &lorawan.AES128Key{} }, fixed(16)},
		{"ProprietaryMACCommandPayload", func() interface{} { return &lorawan.ProprietaryMACCommandPayload{} }, lens(1, 4, 9)},
	}
	for _, up := range []bool{false, true} {
		for _, d := range spec.DescsDir(up) {
			if d.Size == 0 {
				continue
			}
			d := d
			ts = append(ts, reuseType{d.Name + "Payload", func() interface{} {
				p, _, err := lorawan.GetMACPayloadAndSize(d.Up, lorawan.CID(d.CID))
				if err != nil {
					panic(err)
				}
				return p
			}, fixed(d.Size)})
			ts = append(ts, reuseType{"MACCommand(" + d.Name + ")", func() interface{} { return &lorawan.MACCommand{} }, func(r *sim.Rand, fl int) []byte {
				b := fixed(1+d.Size)(r, fl)
				b[0] = d.CID
				return b
			}})
		}
	}
	return ts
}()

type appPkg struct {
	name    string
	payload func(up bool, cid byte) (interface{}, bool)
	newCmd  func() interface{}
	newCmds func() interface{}
}

var appPkgs = []appPkg{
	{"clocksync", func(up bool, cid byte) (interface{}, bool) {
		p, err := clocksync.GetCommandPayload(up, clocksync.CID(cid))
		return p, err == nil
	}, func() interface{} { return &clocksync.Command{} }, func() interface{} { return &clocksync.Commands{} }},
	{"multicastsetup", func(up bool, cid byte) (interface{}, bool) {
		p, err := multicastsetup.GetCommandPayload(up, multicastsetup.CID(cid))
		return p, err == nil
	}, func() interface{} { return &multicastsetup.Command{} }, func() interface{} { return &multicastsetup.Commands{} }},
	{"fragmentation", func(up bool, cid byte) (interface{}, bool) {
		p, err := fragmentation.GetCommandPayload(up, fragmentation.CID(cid))
		return p, err == nil
	}, func() interface{} { return &fragmentation.Command{} }, func() interface{} { return &fragmentation.Commands{} }},
	{"firmwaremanagement", func(up bool, cid byte) (interface{}, bool) {
		p, err := firmwaremanagement.GetCommandPayload(up, firmwaremanagement.CID(cid))
		return p, err == nil
	}, func() interface{} { return &firmwaremanagement.Command{} }, func() interface{} { return &firmwaremanagement.Commands{} }},
}

type appType struct {
	pkg  int
	up   bool
	cid  byte
	kind int // 0 payload, 1 Command, 2 Commands
}

var appTypes = func() []appType {
	var out []appType
	for pi, p := range appPkgs {
		for _, up := range []bool{false, true} {
			for cid := 0; cid < 256; cid++ {
				if _, ok := p.payload(up, byte(cid)); ok {
					out = append(out, appType{pi, up, byte(cid), 0}, appType{pi, up, byte(cid), 1}, appType{pi, up, byte(cid), 2})
				}
			}
		}
	}
	return out
}()

func typeNameOr(name string, v interface{}) string {
	if name != "" {
		return name
	}
	return typeName(v)
}

func typeName(v interface{}) string {
	s := fmt.Sprintf("%T", v)
	if len(s) > 0 && s[0] == '*' {
		s = s[1:]
	}
	return s
}

// textual and database forms: the identifier types (and DLSettings, and a
// whole frame as base64) are also decoded from text and from database values;
// "decoding into a value that was used before" covers these decoders as well.
type scanner interface{ Scan(src interface{}) error }
type textUnmarshaler interface{ UnmarshalText(text []byte) error }

var idTypes = []struct {
	name string
	n    int
	mk   func() interface{}
}{
	{"EUI64", 8, func() interface{} { return &lorawan.EUI64{} }},
	{"DevAddr", 4, func() interface{} { return &lorawan.DevAddr{} }},
	{"NetID", 3, func() interface{} { return &lorawan.NetID{} }},
	{"AES128Key", 16, func() interface{} { return &lorawan.AES128Key{} }},
	{"DLSettings", 1, func() interface{} { return &lorawan.DLSettings{} }},
}

func reuseTextScan(r *sim.Rand) {
	t := idTypes[r.Intn(len(idTypes))]
	simrt.Count(cReuseText)
	hexOf := func(b []byte) []byte { return []byte(fmt.Sprintf("%x", b)) }
	used, fresh := t.mk(), t.mk()
	// first use: a valid value
	first := r.Bytes(t.n)
	for i := range first {
		first[i] |= 1 // (not the zero value)
	}
	if quiet(func() { used.(textUnmarshaler).UnmarshalText(hexOf(first)) }) {
		return
	}
	// second decode: the same call on the used and on a fresh value
	var input interface{}
	asScan := false
	if _, ok := used.(scanner); ok && r.Intn(2) == 0 {
		asScan = true
		switch r.Intn(5) {
		case 0:
			input = nil // a NULL column
		case 1:
			input = r.Bytes(t.n)
		case 2:
			input = r.Bytes(t.n + 1 - 2*r.Intn(2)) // wrong length
		case 3:
			input = string(hexOf(r.Bytes(t.n)))
		default:
			input = int64(r.Intn(1 << 20)) // a type no identifier is stored as
		}
	} else {
		switch r.Intn(5) {
		case 0:
			input = []byte{}
		case 1:
			input = hexOf(r.Bytes(t.n))
		case 2:
			input = hexOf(r.Bytes(t.n - 1 + 2*r.Intn(2)))
		case 3:
			input = []byte("zz")
		default:
			input = append([]byte("0x"), hexOf(r.Bytes(t.n))...)
		}
	}
	call := func(v interface{}) (err error) {
		if asScan {
			return v.(scanner).Scan(input)
		}
		return v.(textUnmarshaler).UnmarshalText(append([]byte(nil), input.([]byte)...))
	}
	var eu, ef error
	if quiet(func() { eu = call(used) }) || quiet(func() { ef = call(fresh) }) {
		functional("text-scan:panic")
		return
	}
	form := "UnmarshalText"
	if asScan {
		form = "Scan"
	}
	if (eu == nil) != (ef == nil) {
		simrt.Report("reuse.decode:"+t.name+"."+form, fmt.Sprintf("%s.%s(%#v) into a value that held %x returns %v, into a fresh value %v", t.name, form, input, first, eu, ef))
		return
	}
	if ef != nil {
		return
	}
	if su, sf := sim.DeepSig(used), sim.DeepSig(fresh); su != sf {
		simrt.Report("reuse.decode:"+t.name+"."+form, fmt.Sprintf("%s.%s(%#v) into a value that held %x gives %s, into a fresh value %s", t.name, form, input, first, su, sf))
	}
}

// reuseDecode performs one I6 experiment.
func reuseDecode(r *sim.Rand) {
	simrt.Count(cReuseOps)
	simrt.Count(cDirtyObj)
	if r.Intn(10) == 0 {
		reuseTextScan(r)
		return
	}
	if r.Intn(10) == 0 {
		// a MACCommand that carried a payload then decodes a payload-less command
		up := r.Intn(2) == 0
		var with, without []*spec.CmdDesc
		for _, d := range spec.DescsDir(up) {
			if d.Size > 0 {
				with = append(with, d)
			} else {
				without = append(without, d)
			}
		}
		c1 := with[r.Intn(len(with))].GenCmd(r)
		b1 := spec.EncodeStreamSpec([]spec.Cmd{c1})
		b2 := []byte{without[r.Intn(len(without))].CID}
		reuseExperiment(r, "MACCommand", "", func() interface{} { return &lorawan.MACCommand{} }, up, b1, b2)
		return
	}
	if r.Intn(12) == 0 {
		// a MACCommand that decoded a request then decodes the answer of the same
		// CID (the other direction), and the other way round
		up := r.Intn(2) == 0
		var pairs [][2]*spec.CmdDesc
		for _, d := range spec.DescsDir(up) {
			if o := spec.Desc(!up, d.CID); o != nil && (d.Size > 0 || o.Size > 0) {
				pairs = append(pairs, [2]*spec.CmdDesc{o, d})
			}
		}
		if len(pairs) > 0 {
			pr := pairs[r.Intn(len(pairs))]
			b1 := spec.EncodeStreamSpec([]spec.Cmd{pr[0].GenCmd(r)})
			b2 := spec.EncodeStreamSpec([]spec.Cmd{pr[1].GenCmd(r)})
			simrt.Count(cCrossDir)
			reuseExperimentDir(r, "MACCommand", "", func() interface{} { return &lorawan.MACCommand{} }, !up, up, b1, b2)
			return
		}
	}
	if r.Intn(2) == 0 {
		t := rootTypes[r.Intn(len(rootTypes))]
		up := r.Intn(2) == 0
		f1, f2 := r.Intn(3), r.Intn(3)
		if r.Intn(2) == 0 {
			f1, f2 = 0, 1
		}
		reuseExperiment(r, t.name, "", t.mk, up, t.gen(r, f1), t.gen(r, f2))
		return
	}
	at := appTypes[r.Intn(len(appTypes))]
	p := appPkgs[at.pkg]
	gen := func(fl int) []byte {
		n := 48
		// decoders that want an exact length get it (Size() of a fresh payload)
		if at.kind == 0 && r.Intn(2) == 0 {
			if v, ok := p.payload(at.up, at.cid); ok {
				if sz, ok := v.(interface{ Size() int }); ok {
					func() {
						defer func() { recover() }()
						if k := sz.Size(); k >= 0 && k < 200 {
							n = k
						}
					}()
				}
			}
		}
		b := make([]byte, n)
		switch fl {
		case 0:
			for i := range b {
				b[i] = 0xff
			}
		case 1:
		default:
			r.Fill(b)
		}
		if r.Intn(4) == 0 {
			r.Fill(b)
		}
		return b
	}
	f1, f2 := r.Intn(3), r.Intn(3)
	if r.Intn(2) == 0 {
		f1, f2 = 0, 1
	}
	b1, b2 := gen(f1), gen(f2)
	switch at.kind {
	case 0:
		mk := func() interface{} { v, _ := p.payload(at.up, at.cid); return v }
		reuseExperiment(r, "", p.name, mk, at.up, b1, b2)
	case 1:
		b1[0], b2[0] = at.cid, at.cid
		if r.Intn(2) == 0 {
			// the second command is another one: with a payload, without one
			// (in this direction), or not defined at all
			b2[0] = byte(r.Intn(12))
			if r.Intn(2) == 0 {
				b2 = b2[:1]
			}
			simrt.Count(cOtherCID)
		}
		reuseExperiment(r, "", p.name, p.newCmd, at.up, b1, b2)
	default:
		// command streams of one to three commands, each sized by the library
		// itself; the first is the type's own command, the others may be any
		// CID (with a payload, without one in this direction, undefined)
		stream := func(first []byte) []byte {
			var out []byte
			k := 1 + r.Intn(3)
			for j := 0; j < k; j++ {
				b := first
				if j > 0 {
					b = gen(r.Intn(3))
					b[0] = byte(r.Intn(12))
				}
				c := p.newCmd()
				if callUnmarshal(c, at.up, b) != nil {
					continue
				}
				n := c.(interface{ Size() int }).Size()
				if n > len(b) {
					continue
				}
				out = append(out, b[:n]...)
			}
			return out
		}
		b1[0], b2[0] = at.cid, at.cid
		s1, s2 := stream(b1), stream(b2)
		if len(s1) == 0 || len(s2) == 0 {
			return
		}
		reuseExperiment(r, "", p.name, p.newCmds, at.up, s1, s2)
	}
}

func reuseExperiment(r *sim.Rand, name, pkg string, mk func() interface{}, up bool, b1, b2 []byte) {
	reuseExperimentDir(r, name, pkg, mk, up, up, b1, b2)
}

// ownerUse: between two decodes the owner of a value uses it - it sets
// exported numbers, flags and byte arrays (the full 32-bit frame counter of
// the session after a decode delivered 16 bits of it, a flag, a time, an
// address). What hangs on pointers, slices and interfaces stays in place and
// is used the same way. Numbers lean towards the ends of their types.
func ownerUse(v reflect.Value, r *sim.Rand, depth int) {
	if depth > 6 {
		return
	}
	switch v.Kind() {
	case reflect.Ptr, reflect.Interface:
		if !v.IsNil() {
			ownerUse(v.Elem(), r, depth+1)
		}
	case reflect.Struct:
		for i := 0; i < v.NumField(); i++ {
			if v.Type().Field(i).PkgPath == "" { // exported
				ownerUse(v.Field(i), r, depth+1)
			}
		}
	case reflect.Slice:
		if v.Type().Elem().Kind() == reflect.Uint8 {
			return // the bytes of a message: data, not state
		}
		for i := 0; i < v.Len() && i < 8; i++ {
			ownerUse(v.Index(i), r, depth+1)
		}
	case reflect.Array:
		if v.CanSet() && v.Type().Elem().Kind() == reflect.Uint8 && r.Intn(2) == 0 {
			for i := 0; i < v.Len(); i++ {
				v.Index(i).SetUint(uint64(r.Intn(256)))
			}
		}
	case reflect.Bool:
		if v.CanSet() && r.Intn(2) == 0 {
			v.SetBool(r.Intn(2) == 0)
		}
	case reflect.Uint8, reflect.Uint16, reflect.Uint32, reflect.Uint64, reflect.Uint:
		if v.CanSet() && r.Intn(2) == 0 {
			bits := uint(v.Type().Bits())
			var x uint64
			switch r.Intn(4) {
			case 0:
				x = ^uint64(0) // the largest value of the type
			case 1:
				x = uint64(1) << uint(r.Intn(int(bits))) // one bit
			default:
				x = uint64(r.Intn(1<<30))<<32 ^ uint64(r.Intn(1<<30))<<8 ^ uint64(r.Intn(256))
			}
			if bits < 64 {
				x &= 1<<bits - 1
			}
			v.SetUint(x)
		}
	case reflect.Int8, reflect.Int16, reflect.Int32, reflect.Int64, reflect.Int:
		if v.CanSet() && r.Intn(2) == 0 {
			bits := uint(v.Type().Bits())
			x := int64(r.Intn(1<<30))<<16 ^ int64(r.Intn(1<<16))
			if r.Intn(2) == 0 {
				x = -x
			}
			if bits < 64 {
				x = x << (64 - bits) >> (64 - bits)
			}
			v.SetInt(x)
		}
	}
}

type mb interface{ MarshalBinary() ([]byte, error) }

// marshalOnly: encoders only inspect the value they encode - whatever state
// its owner left it in (numbers beyond what the wire format carries included:
// an encoder may refuse or cut them, it does not repair them in place).
func marshalOnly(r *sim.Rand, name string, v interface{}) {
	m, ok := v.(mb)
	if !ok {
		return
	}
	simrt.Count(cMarshalOnly)
	before := sim.DeepSig(v)
	var err error
	if quiet(func() { _, err = m.MarshalBinary() }) {
		functional("marshal-only:panic") // totality is not this property's subject
		return
	}
	if t, ok := v.(interface{ MarshalText() ([]byte, error) }); ok {
		quiet(func() { t.MarshalText() })
	}
	if after := sim.DeepSig(v); after != before {
		simrt.Report("readonly.modified:MarshalBinary:"+name, fmt.Sprintf("MarshalBinary of a %s changed the value it encodes: before %s after %s (err=%v)", name, before, after, err))
	}
}

// reuseExperimentDir: the value decoded b1 as a message of direction up1
// before it decodes b2 as one of direction up.
func reuseExperimentDir(r *sim.Rand, name, pkg string, mk func() interface{}, up1, up bool, b1, b2 []byte) {
	used := mk()
	if pkg != "" {
		name = typeName(used)
	}
	var err1, err2, errF error
	if quiet(func() { err1 = callUnmarshal(used, up1, append([]byte(nil), b1...)) }) || err1 != nil {
		return // the first input was not a valid message for this type
	}
	switch r.Intn(4) {
	case 0:
		simrt.Count(cOwnerUse)
		ownerUse(reflect.ValueOf(used), r, 0)
	case 1:
		marshalOnly(r, name, used)
	case 2:
		simrt.Count(cOwnerUse)
		ownerUse(reflect.ValueOf(used), r, 0)
		marshalOnly(r, name, used)
	}
	fresh := mk()
	in2 := append([]byte(nil), b2...)
	regsBefore := regSeqGet()
	if quiet(func() { errF = callUnmarshal(fresh, up, in2) }) {
		return
	}
	if errF == nil {
		// the decoded value does not change when the caller overwrites the
		// buffer it was decoded from (every decodable type, not only frames)
		s0 := sim.DeepSig(fresh)
		if !bytes.Equal(in2, b2) {
			functional("decoder-wrote-input") // (the statement's "never modify memory outside" names the encryption, validate and marshal operations)
		}
		ownerWriteFill(in2, 0xe7)
		if s1 := sim.DeepSig(fresh); s1 != s0 {
			simrt.Report("alias.decode:"+typeNameOr(name, fresh), fmt.Sprintf("a %s decoded from %x changed when the caller overwrote that buffer: %s -> %s", typeNameOr(name, fresh), b2, s0, s1))
		}
	}
	if quiet(func() { err2 = callUnmarshal(used, up, append([]byte(nil), b2...)) }) {
		return
	}
	if regSeqGet() != regsBefore {
		// an operator registered a command between the two decodes: a decoder
		// that consults the registry may legitimately read the bytes differently
		simrt.Count(cFunctional)
		return
	}
	simrt.Trace(evReuse, uint64(len(b1)), uint64(len(b2)))
	simrt.Count(cReuseTypes)
	if (err2 == nil) != (errF == nil) {
		simrt.Report("reuse.decode:"+name, fmt.Sprintf("decoding %x (up=%v) into a %s that had decoded %x returns %v, into a fresh value %v", b2, up, name, b1, err2, errF))
		return
	}
	if errF != nil {
		return
	}
	su, sf := sim.DeepSig(used), sim.DeepSig(fresh)
	if su != sf {
		simrt.Report("reuse.decode:"+name, fmt.Sprintf("decoding %x (up=%v) into a %s that had decoded %x gives %s, into a fresh value %s", b2, up, name, b1, su, sf))
	}
}
