package join

import (
	"bytes"
	"fmt"
	"strings"

	"github.com/brocaar/lorawan"
	"github.com/brocaar/lorawan/backend"

	"verif/sim"
	"verif/simrt"
	"verif/spec"
)

// kekUsable: a KEK is "configured" when the store holds a non-empty value
// for a non-empty label.
func kekUsable(label string, kek []byte) bool { return label != "" && len(kek) > 0 }

// sameNetIDSpelling: two hexadecimal spellings of the same value (case, 0x).
func sameNetIDSpelling(a, b string) bool {
	norm := func(x string) string { return strings.TrimPrefix(strings.ToLower(x), "0x") }
	return norm(a) == norm(b) && len(norm(a)) == 6
}

func validKEKLen(k []byte) bool { return len(k) == 16 || len(k) == 24 || len(k) == 32 }

// openEnvelope returns the key an envelope carries, unwrapping it with one of
// the KEKs the store held for its label while the request was being handled.
func openEnvelope(w *world, name string, env *backend.KeyEnvelope, wantLabel string, cands [][]byte) ([]byte, string) {
	if env == nil {
		return nil, name + " envelope missing"
	}
	usable := false
	for _, k := range cands {
		if kekUsable(wantLabel, k) {
			usable = true
		}
	}
	if usable {
		if env.KEKLabel != wantLabel && !sameNetIDSpelling(env.KEKLabel, wantLabel) {
			return nil, fmt.Sprintf("%s envelope has KEK label %q, configured label is %q", name, env.KEKLabel, wantLabel)
		}
		var k []byte
		var used []byte
		var lastErr error
		for _, c := range cands {
			if !kekUsable(wantLabel, c) {
				continue
			}
			kk, err := spec.KeyUnwrap(c, env.AESKey)
			if err == nil {
				k, used = kk, c
				break
			}
			lastErr = err
		}
		if k == nil {
			return nil, fmt.Sprintf("%s envelope does not unwrap with the KEK configured for label %q (nor with any value the label held while the request was handled): %v", name, wantLabel, lastErr)
		}
		simrt.Count(cWrapped)
		// the network server's half: the same envelope opened with the
		// library's own KeyEnvelope.Unwrap yields the same key (KeyEnvelope is
		// C17's subject: counted, not judged)
		if len(k) == 16 {
			var lk lorawan.AES128Key
			var lerr error
			if !sim.Guard("panic", func() { lk, lerr = env.Unwrap(used) }) {
				if lerr != nil || !bytes.Equal(lk[:], k) {
					simrt.Count(cLibUnwrap)
				}
			}
		}
		return k, ""
	}
	if env.KEKLabel != "" {
		return nil, fmt.Sprintf("%s envelope names KEK label %q but none is configured", name, env.KEKLabel)
	}
	return env.AESKey, ""
}

// digest is what storage did for one delivery of one request: everything the
// log holds for the request's DevEUI and labels between hand-over and return.
type digest struct {
	nonces   []int
	gens     []int
	notFound bool
	keysErr  bool
	nsErr    bool
	asErr    bool
	labelErr bool
	slept    int64
	nsCands  [][]byte
	asCands  [][]byte
}

func sameLabel(a, b string) bool { return a == b || sameNetIDSpelling(a, b) }

func digestOf(rq *request, c *reqCtx, nsLabel, asLabel string) digest {
	var d digest
	var nsBefore, asBefore []byte
	haveNS, haveAS := false, false
	for _, e := range stoEvents() {
		in := e.tick > c.inv && (c.ret == 0 || e.tick < c.ret)
		switch e.kind {
		case seKEKSet:
			if sameLabel(e.label, nsLabel) {
				if e.tick <= c.inv {
					nsBefore, haveNS = e.kek, true
				} else if in {
					d.nsCands = append(d.nsCands, e.kek)
				}
			}
			if e.label == asLabel {
				if e.tick <= c.inv {
					asBefore, haveAS = e.kek, true
				} else if in {
					d.asCands = append(d.asCands, e.kek)
				}
			}
			continue
		}
		if !in {
			continue
		}
		switch e.kind {
		case seKeys:
			if e.dev == rq.rec.idx {
				d.nonces = append(d.nonces, e.nonce)
				d.gens = append(d.gens, e.gen)
			}
		case seNotFound:
			if e.dev == rq.rec.idx {
				d.notFound = true
			}
		case seKeysErr:
			if e.dev == rq.rec.idx {
				d.keysErr = true
			}
		case seLabelErr:
			if e.dev == rq.rec.idx {
				d.labelErr = true
			}
		case seKEK:
			if sameLabel(e.label, nsLabel) {
				d.nsCands = append(d.nsCands, e.kek)
			}
			if e.label == asLabel {
				d.asCands = append(d.asCands, e.kek)
			}
		case seKEKErr:
			if sameLabel(e.label, nsLabel) {
				d.nsErr = true
			}
			if e.label == asLabel {
				d.asErr = true
			}
		case seSlow:
			if e.dev == rq.rec.idx || (e.dev < 0 && (sameLabel(e.label, nsLabel) || e.label == asLabel)) {
				d.slept += e.dur
			}
		}
	}
	if haveNS {
		d.nsCands = append(d.nsCands, nsBefore)
	}
	if haveAS {
		d.asCands = append(d.asCands, asBefore)
	}
	return d
}

// judge applies J1-J4 to one answer.
func judge(w *world, rq *request, c *reqCtx, code int, base backend.BasePayloadResult, got interface{}, sender, receiver string, live bool) {
	rc := base.Result.ResultCode
	simrt.Trace(evAns, uint64(rq.kind), uint64(len(rc)))
	kindName := []string{"join", "rejoin0", "rejoin1", "rejoin2", "homens"}[rq.kind]

	// J3: every answer mirrors sender, receiver and transaction id (the same
	// identifier in another spelling - case, 0x - is the same identifier)
	sameID := func(a, b string) bool {
		norm := func(x string) string { return strings.TrimPrefix(strings.ToLower(x), "0x") }
		return norm(a) == norm(b)
	}
	if !sameID(base.SenderID, receiver) || !sameID(base.ReceiverID, sender) || base.TransactionID != rq.txID {
		simrt.Report("j3.mirror:"+kindName, fmt.Sprintf("answer (%s) has SenderID=%q ReceiverID=%q TransactionID=%d MessageType=%s; request had SenderID=%q ReceiverID=%q TransactionID=%d",
			rc, base.SenderID, base.ReceiverID, base.TransactionID, base.MessageType, sender, receiver, rq.txID))
	}
	if rq.kind == 4 {
		// HomeNSReq: the statement only covers the mirroring (checked above)
		return
	}

	// what must happen, from the request and from what storage did for its
	// DevEUI and labels while THIS delivery was inside the handler
	nsLabel := sender
	asLabel := rq.rec.asLabel
	d := digestOf(rq, c, nsLabel, asLabel)
	gotKeys := len(d.nonces) > 0
	// (a request that was answered without asking storage counts as "unknown"
	// only if the device was not provisioned yet when it was sent)
	// (a window in which storage both answered "not found" and served keys for
	// this DevEUI - the device was provisioned while requests for it were in
	// flight - fits either answer)
	unknown := (d.notFound && !gotKeys) || (!gotKeys && !d.keysErr && !rq.knownAtSend)
	either := d.notFound && gotKeys
	storageErr := d.keysErr || d.nsErr || d.asErr || d.labelErr
	usableNS, usableAS, badKEK := false, false, false
	for _, k := range d.nsCands {
		if kekUsable(nsLabel, k) {
			usableNS = true
			if !validKEKLen(k) {
				badKEK = true
			}
		}
	}
	for _, k := range d.asCands {
		if kekUsable(asLabel, k) {
			usableAS = true
			if !validKEKLen(k) {
				badKEK = true
			}
		}
	}
	if asLabel != "" && !usableAS {
		// a label without a key in the store: a join-server may refuse to hand
		// the AppSKey out in clear
		badKEK = true
	}
	_ = usableNS
	rxBad := rq.rxDelay < 0 || rq.rxDelay > 15
	// a slow storage back-end, a client that went away: whether the
	// join-server gives up on such a request (a time-out policy, the request's
	// context) is not in the statement; it may answer non-Success, never a
	// wrong Success
	gaveUp := d.slept > 0 || c.cancelled
	overflowAny, overflowAll := false, gotKeys
	for _, n := range d.nonces {
		if n >= 1<<24 {
			overflowAny = true
		} else {
			overflowAll = false
		}
	}
	legacyRejoin := rq.kind > 0 && !rq.optNeg

	// a key rotation between the device building its request and storage
	// serving it is a legitimate mismatch (the request is answered for the
	// other generation): not judged beyond J3
	for _, g := range d.gens {
		if g != rq.gen {
			simrt.Count(cRotRace)
			return
		}
	}

	var phy backend.HEXBytes
	var envs struct{ s, f, e, n, a *backend.KeyEnvelope }
	switch a := got.(type) {
	case backend.JoinAnsPayload:
		phy = a.PHYPayload
		envs.s, envs.f, envs.e, envs.n, envs.a = a.SNwkSIntKey, a.FNwkSIntKey, a.NwkSEncKey, a.NwkSKey, a.AppSKey
	case backend.RejoinAnsPayload:
		phy = a.PHYPayload
		envs.s, envs.f, envs.e, envs.n, envs.a = a.SNwkSIntKey, a.FNwkSIntKey, a.NwkSEncKey, a.NwkSKey, a.AppSKey
	}

	if rc != backend.Success {
		switch {
		case storageErr:
			// the narrow relaxation: a storage callback failed for this delivery
			// (also when the device is unknown as well: a handler that issues its
			// look-ups side by side may meet either first), it may fail with any
			// non-Success code
		case gaveUp:
			simrt.Count(cSlowFail)
		case either && rc == backend.UnknownDevEUI:
			simrt.Count(cRotRace)
		case unknown:
			if rc != backend.UnknownDevEUI {
				simrt.Report("j2.unknown-deveui:"+kindName, fmt.Sprintf("request for an unknown DevEUI answered %s (%s)", rc, base.Result.Description))
			}
		case rq.badMIC && rq.kind == 0 && gotKeys:
			// the device is known and its keys were served: a wrong MIC is
			// MICFailed whatever else is wrong with the request
			if rc != backend.MICFailed {
				simrt.Report("j2.micfailed", fmt.Sprintf("join-request with a wrong MIC answered %s (%s); rxdelay=%d nonce-overflow=%v", rc, base.Result.Description, rq.rxDelay, overflowAny))
			}
		case overflowAny || badKEK || rxBad:
			// the narrow relaxation: this request cannot be answered with
			// Success (nonce does not fit, KEK unusable, RxDelay does not fit)
		case rq.badMIC:
			// a rejoin-request with a wrong MIC (or a join-request whose keys
			// were never served): the statement promises Success only for a
			// correct MIC
		case legacyRejoin:
			// a rejoin-request whose DLSettings lack OptNeg is outside what
			// LoRaWAN 1.1 defines: a join-server may refuse it
			simrt.Count(cLegacyRefused)
		case rq.odd || c.odd:
			// legal but unusual input of a fault batch (MACVersion that does not
			// fit the request, an explicitly empty CFList member, a body without
			// declared length): a stricter join-server may refuse it
			simrt.Count(cOddRefused)
		default:
			sig := "j1.rejected:" + kindName
			if live {
				sig = "j6.liveness:" + kindName
			}
			simrt.Report(sig, fmt.Sprintf("valid %s-request for a known device answered %s (%s); optneg=%v rxdelay=%d cflist=%x", kindName, rc, base.Result.Description, rq.optNeg, rq.rxDelay, rq.cfList))
		}
		return
	}

	// ---- Success ----
	_ = code // the HTTP status is not part of the statement
	if !gotKeys {
		simrt.Report("j4.success-despite-storage-error:"+kindName, "Success although storage served no device keys for this DevEUI while the request was being handled")
		return
	}
	if rq.badMIC && rq.kind > 0 {
		return // wrong-MIC rejoin answered Success: not judged (see above)
	}
	if rq.badMIC && rq.kind == 0 {
		simrt.Report("j2.micfailed", "join-request with a wrong MIC answered Success")
		return
	}
	if overflowAll {
		simrt.Report("j4.success-despite-nonce-overflow:"+kindName, fmt.Sprintf("Success although the configured JoinNonce %v does not fit 24 bits", d.nonces))
		return
	}
	// (a look-up that failed and was then served, or was answered from
	// something the join-server had kept, is no obstacle to Success: what the
	// answer carries is judged below)
	reqType := byte(spec.ReqJoin)
	if rq.kind > 0 {
		reqType = byte(rq.kind - 1)
		// a rejoin-accept without OptNeg is outside what LoRaWAN 1.1 defines:
		// its MIC and keys are not judged, decryption and echoes are
	}
	simrt.Count(cSuccess)
	ja, err := rq.dev.ProcessJoinAccept(phy, reqType, rq.nonce)
	if err != nil {
		simrt.Report("j1.accept-shape:"+kindName, fmt.Sprintf("device cannot read the join-accept %x: %v", []byte(phy), err))
		return
	}
	if !ja.MICOK && !legacyRejoin {
		simrt.Report("j1.accept-mic:"+kindName, fmt.Sprintf("device rejects the MIC of the join-accept %x (optneg in accept=%v, requested %v)", []byte(phy), ja.OptNeg, rq.optNeg))
		return
	}
	var netLE [3]byte
	copy(netLE[:], spec.Reverse(rq.netID[:]))
	var addrLE [4]byte
	copy(addrLE[:], spec.Reverse(rq.devAddr[:]))
	dlByte := rq.dl.RX2DataRate&0x0f | (rq.dl.RX1DROffset&0x07)<<4
	if rq.dl.OptNeg {
		dlByte |= 0x80
	}
	nonceOK := false
	for _, n := range d.nonces {
		if int(ja.JoinNonce) == n {
			nonceOK = true
		}
	}
	if !nonceOK {
		simrt.Report("j1.echo:JoinNonce:"+kindName, fmt.Sprintf("join-accept carries JoinNonce %d, storage configured %v for this DevEUI while the request was being handled", ja.JoinNonce, d.nonces))
	}
	_ = netLE // (the NetID in the accept is not among the fields the statement lists)
	if ja.DevAddrLE != addrLE {
		simrt.Report("j1.echo:DevAddr:"+kindName, fmt.Sprintf("join-accept carries DevAddr %x (LE), requested %s", ja.DevAddrLE, rq.devAddr))
	}
	if ja.DLSettings != dlByte {
		simrt.Report("j1.echo:DLSettings:"+kindName, fmt.Sprintf("join-accept carries DLSettings %02x, requested %02x", ja.DLSettings, dlByte))
	}
	if int(ja.RxDelay) != rq.rxDelay {
		simrt.Report("j1.echo:RxDelay:"+kindName, fmt.Sprintf("join-accept carries RxDelay %d, requested %d", ja.RxDelay, rq.rxDelay))
	}
	if !bytes.Equal(ja.CFList, rq.cfList) {
		simrt.Report("j1.echo:CFList:"+kindName, fmt.Sprintf("join-accept carries CFList %x, requested %x", ja.CFList, rq.cfList))
	}

	if legacyRejoin {
		return
	}
	// session keys: envelopes (after unwrapping with the configured KEKs)
	// must equal what the device derives
	keys := rq.dev.DeriveKeys(ja, rq.nonce)
	cmp := func(name string, env *backend.KeyEnvelope, label string, keks [][]byte, want spec.Key) {
		k, why := openEnvelope(w, name, env, label, keks)
		if why != "" {
			simrt.Report("j1.envelope:"+name+":"+kindName, why)
			return
		}
		simrt.Count(cKeysOK)
		if !bytes.Equal(k, want[:]) {
			sig := "j1.keys:" + name + ":" + kindName
			if rq.kind > 0 {
				// the known defect, and only it: the rejoin answer carries the
				// LoRaWAN 1.0-style derivation (NetID based, AppSKey from
				// NwkKey) although the accept sets OptNeg. Anything else
				// keeps the generic signature.
				legacy := rq.dev.DeriveKeys(spec.JoinAccept{JoinNonce: ja.JoinNonce, NetIDLE: ja.NetIDLE, OptNeg: false}, rq.nonce)
				lk := map[string]spec.Key{"AppSKey": legacy.AppS, "FNwkSIntKey": legacy.FNwkSInt,
					"SNwkSIntKey": spec.SessionKey10(rq.dev.NwkKey, 0x03, ja.JoinNonce, ja.NetIDLE, rq.nonce),
					"NwkSEncKey":  spec.SessionKey10(rq.dev.NwkKey, 0x04, ja.JoinNonce, ja.NetIDLE, rq.nonce)}[name]
				if bytes.Equal(k, lk[:]) {
					sig = "joinkeys:rejoin:optneg:" + name
				}
			}
			simrt.Report(sig, fmt.Sprintf("%s in the answer is %x, the device derives %x (optneg=%v, JoinNonce=%d, nonce/RJCount=%d, DevEUI=%x)", name, k, want[:], ja.OptNeg, ja.JoinNonce, rq.nonce, rq.dev.DevEUI))
		}
	}
	cmp("AppSKey", envs.a, asLabel, d.asCands, keys.AppS)
	if ja.OptNeg {
		cmp("FNwkSIntKey", envs.f, nsLabel, d.nsCands, keys.FNwkSInt)
		cmp("SNwkSIntKey", envs.s, nsLabel, d.nsCands, keys.SNwkSInt)
		cmp("NwkSEncKey", envs.e, nsLabel, d.nsCands, keys.NwkSEnc)
	} else {
		cmp("NwkSKey", envs.n, nsLabel, d.nsCands, keys.FNwkSInt)
	}
	_ = lorawan.EUI64{}
}
