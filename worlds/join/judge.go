package join

import (
	"bytes"
	"fmt"
	"strings"

	"github.com/brocaar/lorawan"
	"github.com/brocaar/lorawan/backend"

	"verif/sim"
	"verif/simrt"
	"verif/spec"
)

// kekUsable: a KEK is "configured" when the store holds a non-empty value
// for a non-empty label.
func kekUsable(label string, kek []byte) bool { return label != "" && len(kek) > 0 }

// sameNetIDSpelling: two hexadecimal spellings of the same value (case, 0x).
func sameNetIDSpelling(a, b string) bool {
	norm := func(x string) string { return strings.TrimPrefix(strings.ToLower(x), "0x") }
	return norm(a) == norm(b) && len(norm(a)) == 6
}

func validKEKLen(k []byte) bool { return len(k) == 16 || len(k) == 24 || len(k) == 32 }

// openEnvelope returns the key an envelope carries, unwrapping it with the
// KEK the store holds for its label.
func openEnvelope(w *world, name string, env *backend.KeyEnvelope, wantLabel string, wantKEK []byte) ([]byte, string) {
	if env == nil {
		return nil, name + " envelope missing"
	}
	if kekUsable(wantLabel, wantKEK) {
		if env.KEKLabel != wantLabel && !sameNetIDSpelling(env.KEKLabel, wantLabel) {
			return nil, fmt.Sprintf("%s envelope has KEK label %q, configured label is %q", name, env.KEKLabel, wantLabel)
		}
		k, err := spec.KeyUnwrap(wantKEK, env.AESKey)
		if err != nil {
			return nil, fmt.Sprintf("%s envelope does not unwrap with the configured KEK: %v", name, err)
		}
		simrt.Count(cWrapped)
		// the network server's half: the same envelope opened with the
		// library's own KeyEnvelope.Unwrap yields the same key
		if len(k) == 16 {
			var lk lorawan.AES128Key
			var lerr error
			if !sim.Guard("panic", func() { lk, lerr = env.Unwrap(wantKEK) }) {
				if lerr != nil || !bytes.Equal(lk[:], k) {
					simrt.Report("joinkeys:lib-unwrap", fmt.Sprintf("%s envelope %x: KeyEnvelope.Unwrap gives %x (err %v), RFC 3394 unwrap gives %x", name, []byte(env.AESKey), lk[:], lerr, k))
				}
			}
		}
		return k, ""
	}
	if env.KEKLabel != "" {
		return nil, fmt.Sprintf("%s envelope names KEK label %q but none is configured", name, env.KEKLabel)
	}
	return env.AESKey, ""
}

// judge applies J1-J4 to one answer.
func judge(w *world, rq *request, c *reqCtx, code int, base backend.BasePayloadResult, got interface{}, sender, receiver string, live bool) {
	rc := base.Result.ResultCode
	simrt.Trace(evAns, uint64(rq.kind), uint64(len(rc)))
	kindName := []string{"join", "rejoin0", "rejoin1", "rejoin2", "homens"}[rq.kind]

	// J3: every answer mirrors sender, receiver, transaction id and has the matching type
	wantType := map[int]backend.MessageType{0: backend.JoinAns, 1: backend.RejoinAns, 2: backend.RejoinAns, 3: backend.RejoinAns, 4: backend.HomeNSAns}[rq.kind]
	_ = wantType // the statement asks for sender, receiver and transaction id
	if base.SenderID != receiver || base.ReceiverID != sender || base.TransactionID != rq.txID {
		simrt.Report("j3.mirror:"+kindName, fmt.Sprintf("answer (%s) has SenderID=%q ReceiverID=%q TransactionID=%d MessageType=%s; request had SenderID=%q ReceiverID=%q TransactionID=%d",
			rc, base.SenderID, base.ReceiverID, base.TransactionID, base.MessageType, sender, receiver, rq.txID))
	}

	// what must happen, from the request and from what storage did for THIS delivery
	// (what storage answered to THIS delivery: a device may be provisioned and
	// a label re-keyed while other requests are in flight)
	// (a request that was answered without asking storage counts as "unknown"
	// only if the device was not provisioned yet when it was sent)
	unknown := c.notFound || (!c.gotKeys && !c.firedKeys && !rq.knownAtSend)
	storageErr := c.firedKeys || c.firedKEK || c.firedLabel
	nsLabel := sender
	nsKEK := kekGet(nsLabel)
	if c.nsServed {
		nsKEK = c.nsKEK
	}
	asLabel := rq.rec.asLabel
	asKEK := kekGet(asLabel)
	if c.asServed {
		asKEK = c.asKEK
	}
	// a storage back-end that took seconds: whether the join-server gives up
	// on such a request (a time-out policy) is not in the statement; it may
	// answer non-Success, never a wrong Success
	verySlow := c.slept >= 1e9 || c.cancelled // (a request whose client went away may be abandoned too)
	badKEK := (kekUsable(nsLabel, nsKEK) && !validKEKLen(nsKEK)) || (kekUsable(asLabel, asKEK) && !validKEKLen(asKEK))
	rxBad := rq.rxDelay < 0 || rq.rxDelay > 15

	// a key rotation between the device building its request and storage
	// serving it is a legitimate mismatch (the request is answered for the
	// other generation): not judged beyond J3
	if rq.kind != 4 && c.gotKeys && c.gen != rq.gen {
		simrt.Count(cRotRace)
		return
	}
	if rq.kind == 4 {
		// HomeNSReq: the statement only covers the mirroring (checked above)
		return
	}

	var phy backend.HEXBytes
	var envs struct{ s, f, e, n, a *backend.KeyEnvelope }
	switch a := got.(type) {
	case backend.JoinAnsPayload:
		phy = a.PHYPayload
		envs.s, envs.f, envs.e, envs.n, envs.a = a.SNwkSIntKey, a.FNwkSIntKey, a.NwkSEncKey, a.NwkSKey, a.AppSKey
	case backend.RejoinAnsPayload:
		phy = a.PHYPayload
		envs.s, envs.f, envs.e, envs.n, envs.a = a.SNwkSIntKey, a.FNwkSIntKey, a.NwkSEncKey, a.NwkSKey, a.AppSKey
	}
	hasKeys := envs.s != nil || envs.f != nil || envs.e != nil || envs.n != nil || envs.a != nil || len(phy) > 0

	if rc != backend.Success {
		_ = hasKeys // (whether an error answer may carry a PHYPayload is not in the statement)
		switch {
		case storageErr:
			// the narrow relaxation: a storage callback failed for this delivery
			// (also when the device is unknown as well: a handler that issues its
			// look-ups side by side may meet either first), it may fail with any
			// non-Success code
		case unknown && c.failKeys != 1:
			if rc != backend.UnknownDevEUI {
				simrt.Report("j2.unknown-deveui:"+kindName, fmt.Sprintf("request for an unknown DevEUI answered %s (%s)", rc, base.Result.Description))
			}
		case rq.badMIC && rq.kind == 0:
			// the device is known and its keys were served: a wrong MIC is
			// MICFailed whatever else is wrong with the request
			if rc != backend.MICFailed {
				simrt.Report("j2.micfailed", fmt.Sprintf("join-request with a wrong MIC answered %s (%s); rxdelay=%d nonce-overflow=%v", rc, base.Result.Description, rq.rxDelay, c.overflow))
			}
		case c.overflow || badKEK || rxBad:
			// the narrow relaxation: this request cannot be answered with
			// Success (nonce does not fit, KEK unusable, RxDelay does not fit)
		case rq.badMIC:
			// a rejoin-request with a wrong MIC: the statement promises Success
			// only for a correct MIC; whether the join-server checks it is open
		case verySlow:
			simrt.Count(cSlowFail)
		default:
			sig := "j1.rejected:" + kindName
			if live {
				sig = "j6.liveness:" + kindName
			}
			simrt.Report(sig, fmt.Sprintf("valid %s-request for a known device answered %s (%s); optneg=%v rxdelay=%d cflist=%x", kindName, rc, base.Result.Description, rq.optNeg, rq.rxDelay, rq.cfList))
		}
		return
	}

	// ---- Success ----
	_ = code // the HTTP status is not part of the statement
	if unknown || (c.firedKeys && !c.gotKeys) {
		simrt.Report("j4.success-despite-storage-error:"+kindName, "Success although storage returned no device keys")
		return
	}
	if rq.badMIC && rq.kind > 0 {
		return // wrong-MIC rejoin answered Success: not judged (see above)
	}
	if rq.badMIC && rq.kind == 0 {
		simrt.Report("j2.micfailed", "join-request with a wrong MIC answered Success")
		return
	}
	if c.overflow {
		simrt.Report("j4.success-despite-nonce-overflow:"+kindName, fmt.Sprintf("Success although the configured JoinNonce %d does not fit 24 bits", c.nonce))
		return
	}
	// a look-up that failed and was then served (a handler that retries a
	// flaky back-end) is no obstacle to Success; one that was never served is
	if (c.firedKEK && ((c.failKEK == 1 && !c.nsServed) || (c.failKEK == 2 && !c.asServed))) || (c.firedLabel && !c.labelServed) {
		simrt.Report("j4.success-despite-storage-error:"+kindName, "Success although a storage callback of this request failed and was never served")
		return
	}
	reqType := byte(spec.ReqJoin)
	if rq.kind > 0 {
		reqType = byte(rq.kind - 1)
		// a rejoin-accept without OptNeg is outside what LoRaWAN 1.1 defines:
		// its MIC and keys are not judged, decryption and echoes are
	}
	simrt.Count(cSuccess)
	ja, err := rq.dev.ProcessJoinAccept(phy, reqType, rq.nonce)
	if err != nil {
		simrt.Report("j1.accept-shape:"+kindName, fmt.Sprintf("device cannot read the join-accept %x: %v", []byte(phy), err))
		return
	}
	legacyRejoin := rq.kind > 0 && !rq.optNeg
	if !ja.MICOK && !legacyRejoin {
		simrt.Report("j1.accept-mic:"+kindName, fmt.Sprintf("device rejects the MIC of the join-accept %x (optneg in accept=%v, requested %v)", []byte(phy), ja.OptNeg, rq.optNeg))
		return
	}
	var netLE [3]byte
	copy(netLE[:], spec.Reverse(rq.netID[:]))
	var addrLE [4]byte
	copy(addrLE[:], spec.Reverse(rq.devAddr[:]))
	dlByte := rq.dl.RX2DataRate&0x0f | (rq.dl.RX1DROffset&0x07)<<4
	if rq.dl.OptNeg {
		dlByte |= 0x80
	}
	if int(ja.JoinNonce) != c.nonce {
		simrt.Report("j1.echo:JoinNonce:"+kindName, fmt.Sprintf("join-accept carries JoinNonce %d, storage configured %d for this request", ja.JoinNonce, c.nonce))
	}
	_ = netLE // (the NetID in the accept is not among the fields the statement lists)
	if ja.DevAddrLE != addrLE {
		simrt.Report("j1.echo:DevAddr:"+kindName, fmt.Sprintf("join-accept carries DevAddr %x (LE), requested %s", ja.DevAddrLE, rq.devAddr))
	}
	if ja.DLSettings != dlByte {
		simrt.Report("j1.echo:DLSettings:"+kindName, fmt.Sprintf("join-accept carries DLSettings %02x, requested %02x", ja.DLSettings, dlByte))
	}
	if int(ja.RxDelay) != rq.rxDelay {
		simrt.Report("j1.echo:RxDelay:"+kindName, fmt.Sprintf("join-accept carries RxDelay %d, requested %d", ja.RxDelay, rq.rxDelay))
	}
	if !bytes.Equal(ja.CFList, rq.cfList) {
		simrt.Report("j1.echo:CFList:"+kindName, fmt.Sprintf("join-accept carries CFList %x, requested %x", ja.CFList, rq.cfList))
	}

	if legacyRejoin {
		return
	}
	// session keys: envelopes (after unwrapping with the configured KEKs)
	// must equal what the device derives
	keys := rq.dev.DeriveKeys(ja, rq.nonce)
	cmp := func(name string, env *backend.KeyEnvelope, label string, kek []byte, want spec.Key) {
		k, why := openEnvelope(w, name, env, label, kek)
		if why != "" {
			simrt.Report("j1.envelope:"+name+":"+kindName, why)
			return
		}
		simrt.Count(cKeysOK)
		if !bytes.Equal(k, want[:]) {
			sig := "j1.keys:" + name + ":" + kindName
			if rq.kind > 0 {
				// the known defect, and only it: the rejoin answer carries the
				// LoRaWAN 1.0-style derivation (NetID based, AppSKey from
				// NwkKey) although the accept sets OptNeg. Anything else
				// keeps the generic signature.
				legacy := rq.dev.DeriveKeys(spec.JoinAccept{JoinNonce: ja.JoinNonce, NetIDLE: ja.NetIDLE, OptNeg: false}, rq.nonce)
				lk := map[string]spec.Key{"AppSKey": legacy.AppS, "FNwkSIntKey": legacy.FNwkSInt,
					"SNwkSIntKey": spec.SessionKey10(rq.dev.NwkKey, 0x03, ja.JoinNonce, ja.NetIDLE, rq.nonce),
					"NwkSEncKey":  spec.SessionKey10(rq.dev.NwkKey, 0x04, ja.JoinNonce, ja.NetIDLE, rq.nonce)}[name]
				if bytes.Equal(k, lk[:]) {
					sig = "joinkeys:rejoin:optneg:" + name
				}
			}
			simrt.Report(sig, fmt.Sprintf("%s in the answer is %x, the device derives %x (optneg=%v, JoinNonce=%d, nonce/RJCount=%d, DevEUI=%x)", name, k, want[:], ja.OptNeg, ja.JoinNonce, rq.nonce, rq.dev.DevEUI))
		}
	}
	cmp("AppSKey", envs.a, asLabel, asKEK, keys.AppS)
	if ja.OptNeg {
		cmp("FNwkSIntKey", envs.f, nsLabel, nsKEK, keys.FNwkSInt)
		cmp("SNwkSIntKey", envs.s, nsLabel, nsKEK, keys.SNwkSInt)
		cmp("NwkSEncKey", envs.e, nsLabel, nsKEK, keys.NwkSEnc)
	} else {
		cmp("NwkSKey", envs.n, nsLabel, nsKEK, keys.FNwkSInt)
	}
	_ = lorawan.EUI64{}
}
