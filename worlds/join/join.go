// Package join is world W-JOIN (property C16): device models, 1-3 network
// server tasks talking to ONE real join-server handler through the real
// backend client (or raw HTTP bodies), a storage stub behind the four
// callbacks, and faults at every seam: storage errors, nonce overflow, KEK
// mis-configuration, body reader and response writer faults, lost responses
// with retries, radio corruption.
//
// The oracle is an independent device model (verif/spec.Device): it decrypts
// and verifies the join-accept and derives the session keys itself.
package join

import (
	"bytes"
	"context"
	"encoding/hex"
	"encoding/json"
	"errors"
	"fmt"
	"io"
	"net/http"
	"strings"
	"sync/atomic"

	"github.com/brocaar/lorawan"
	"github.com/brocaar/lorawan/backend"
	"github.com/brocaar/lorawan/backend/joinserver"

	"verif/sim"
	"verif/simrt"
	"verif/spec"
	"verif/worlds"
)

func init() {
	worlds.Register("join", build)
	http.DefaultTransport = simTransport{}
}

var (
	evReq = sim.RegisterEv(400, "request")
	evAns = sim.RegisterEv(401, "answer")
	evSto = sim.RegisterEv(402, "storage")

	cNontrivial = simrt.RegisterCounter("nontrivial")
	cJoin       = simrt.RegisterCounter("op_join_requests")
	cRejoin     = simrt.RegisterCounter("op_rejoin_requests")
	cHomeNS     = simrt.RegisterCounter("op_homens_requests")
	cViaClient  = simrt.RegisterCounter("op_via_backend_client")
	cRaw        = simrt.RegisterCounter("op_raw_http")
	cSuccess    = simrt.RegisterCounter("probe_success_answers_verified_by_device_model")
	cKeysOK     = simrt.RegisterCounter("probe_session_keys_compared")
	cWrapped    = simrt.RegisterCounter("probe_key_envelopes_unwrapped")
	cOptNeg     = simrt.RegisterCounter("probe_optneg_joins")
	cCFList     = simrt.RegisterCounter("probe_cflist_present")
	cConcurrent = simrt.RegisterCounter("probe_requests_overlapping_in_handler")
	cLive       = simrt.RegisterCounter("probe_liveness_joins_after_faults")

	fStoKeys       = simrt.RegisterCounter("fault_storage_devicekeys_error")
	fStoKEK        = simrt.RegisterCounter("fault_storage_kek_error")
	fStoLabel      = simrt.RegisterCounter("fault_storage_askeklabel_error")
	fStoNet        = simrt.RegisterCounter("fault_storage_homenetid_error")
	fStoSlow       = simrt.RegisterCounter("fault_storage_slow")
	fNonce         = simrt.RegisterCounter("fault_joinnonce_overflow")
	fNonceEdge     = simrt.RegisterCounter("fault_joinnonce_counter_near_its_24bit_end")
	fKEKLen        = simrt.RegisterCounter("fault_kek_invalid_length")
	fUnknown       = simrt.RegisterCounter("fault_unknown_deveui")
	fBadMIC        = simrt.RegisterCounter("fault_radio_corrupted_mic")
	fBodyShort     = simrt.RegisterCounter("fault_body_short_reads")
	fBodyErr       = simrt.RegisterCounter("fault_body_read_error")
	fBodyEmpty     = simrt.RegisterCounter("fault_body_empty")
	fBodyJunk      = simrt.RegisterCounter("fault_body_malformed_json")
	fWrongType     = simrt.RegisterCounter("fault_body_wrong_message_type")
	fWriteErr      = simrt.RegisterCounter("fault_response_write_error")
	fRespLost      = simrt.RegisterCounter("fault_response_lost_then_retry")
	fRxDelay       = simrt.RegisterCounter("fault_rxdelay_out_of_range")
	fRotate        = simrt.RegisterCounter("fault_device_keys_rotated")
	fConfused      = simrt.RegisterCounter("fault_message_type_and_frame_type_disagree")
	cEmptyCFList   = simrt.RegisterCounter("probe_explicit_empty_cflist_member")
	cRotRace       = simrt.RegisterCounter("probe_request_overtaken_by_key_rotation")
	fRetryDup      = simrt.RegisterCounter("fault_duplicate_delivery")
	fReqLost       = simrt.RegisterCounter("fault_request_lost")
	fTruncResp     = simrt.RegisterCounter("fault_response_truncated")
	cLibUnwrap     = simrt.RegisterCounter("probe_library_keyenvelope_unwrap_disagrees_not_judged")
	cLegacyRefused = simrt.RegisterCounter("probe_rejoin_without_optneg_refused_not_judged")
	cOddRefused    = simrt.RegisterCounter("probe_unusual_input_refused_not_judged")
	cBusy          = simrt.RegisterCounter("op_busy_server_many_connections_and_devices")
	fMICOtherKey   = simrt.RegisterCounter("join_request_signed_with_another_key_of_the_device_or_the_zero_key")
	cHexTextKEK    = simrt.RegisterCounter("configuration_kek_whose_bytes_are_printable_hexadecimal_text")
	cKeysOnly      = simrt.RegisterCounter("configuration_device_key_callback_leaves_the_deveui_member_blank")
	cBare          = simrt.RegisterCounter("configuration_without_kek_label_and_home_netid_callbacks")
	cDecoyCalled   = simrt.RegisterCounter("callback_of_another_handler_of_the_process_called")
	cBareRefused   = simrt.RegisterCounter("configuration_without_optional_callbacks_refused_by_newhandler")
	cDecoy         = simrt.RegisterCounter("configuration_other_handlers_exist_in_the_process")
	cHexPrefix     = simrt.RegisterCounter("probe_hex_members_with_0x_prefix")
	fClientGone    = simrt.RegisterCounter("fault_client_disconnected_while_storage_works")
	fProvision     = simrt.RegisterCounter("fault_device_provisioned_after_first_requests")
	fKEKRotate     = simrt.RegisterCounter("fault_kek_replaced_in_store")
	fKEKInPlace    = simrt.RegisterCounter("fault_kek_rewritten_in_place")
	fSlowLong      = simrt.RegisterCounter("fault_storage_slow_seconds_or_more")
	cLateWrite     = simrt.RegisterCounter("probe_response_written_after_handler_returned")
	cSlowFail      = simrt.RegisterCounter("probe_slow_storage_answered_non_success")
	errInjected    = errors.New("injected storage failure")
)

// ---------------------------------------------------------------- storage

type devRec struct {
	idx int
	// key generations of this DevEUI: re-provisioning / key rotation gives the
	// same DevEUI new root keys. gens[g] is immutable; the current generation
	// is a storage-side counter.
	gens    []spec.Device
	dev     spec.Device // generation 0 (EUIs are the same in all generations)
	known   bool
	asLabel string
	homeNet lorawan.NetID
}

// per-device JoinNonce counters: storage state shared by all requests
// (harness bookkeeping, like a database sequence)
var nonceCtr [64]int

//go:norace
func nextNonce(i int) int { nonceCtr[i]++; return nonceCtr[i] }

//go:norace
func setNonce(i, v int) { nonceCtr[i] = v }

// current key generation per device (storage state)
var genIdx [64]int

//go:norace
func curGen(i int) int { return genIdx[i] }

//go:norace
func bumpGen(i, n int) int {
	if genIdx[i]+1 < n {
		genIdx[i]++
	}
	return genIdx[i]
}

//go:norace
func resetGens() {
	for i := range genIdx {
		genIdx[i] = 0
	}
}

// which devices storage knows (an operator may provision one during the run)
var knownArr [64]bool

//go:norace
func isKnown(i int) bool { return knownArr[i] }

//go:norace
func setKnown(i int, v bool) { knownArr[i] = v }

// the KEK store: label -> key. Mutable during a run (re-keying), so it is a
// small table behind norace accessors (harness bookkeeping like a database),
// not a Go map.
type kekEntry struct {
	label string
	kek   []byte
	want  []byte // private copy of what the operator last stored under the label
}

var (
	kekStore  [32]kekEntry
	kekStoreN int
)

var kekPub int32

//go:norace
func kekGet(label string) []byte {
	for i := 0; i < kekStoreN; i++ {
		if kekStore[i].label == label {
			return kekStore[i].kek
		}
	}
	return nil
}

//go:norace
func kekSet(label string, k []byte) {
	for i := 0; i < kekStoreN; i++ {
		if kekStore[i].label == label {
			kekStore[i].kek = k
			kekStore[i].want = append([]byte(nil), k...)
			logSto(stoEv{kind: seKEKSet, dev: -1, label: label, kek: copyBytes(k)})
			return
		}
	}
	if kekStoreN < len(kekStore) {
		kekStore[kekStoreN] = kekEntry{label, k, append([]byte(nil), k...)}
		kekStoreN++
		logSto(stoEv{kind: seKEKSet, dev: -1, label: label, kek: copyBytes(k)})
	}
}

// kekRewritten: the bytes of a stored slice were rewritten in place; every
// label that holds this very slice now has the new key.
//
//go:norace
func kekRewritten(k []byte) {
	for i := 0; i < kekStoreN; i++ {
		if len(kekStore[i].kek) > 0 && len(k) > 0 && &kekStore[i].kek[0] == &k[0] {
			kekStore[i].want = append([]byte(nil), k...)
			logSto(stoEv{kind: seKEKSet, dev: -1, label: kekStore[i].label, kek: copyBytes(k)})
		}
	}
}

//go:norace
func kekWant(label string) []byte {
	for i := 0; i < kekStoreN; i++ {
		if kekStore[i].label == label {
			return kekStore[i].want
		}
	}
	return nil
}

//go:norace
func kekLabels() []string {
	out := make([]string, 0, kekStoreN)
	for i := 0; i < kekStoreN; i++ {
		out = append(out, kekStore[i].label)
	}
	return out
}

//go:norace
func kekReset() {
	for i := range kekStore {
		kekStore[i] = kekEntry{}
	}
	kekStoreN = 0
}

//go:norace
func handlerBusy() bool { return inHandler > 0 }

// how many requests are inside the handler right now
var inHandler int

//go:norace
func enterHandler() int { inHandler++; return inHandler }

//go:norace
func leaveHandler() { inHandler-- }

//go:norace
func resetHandlerCount() { inHandler = 0 }

// reqCtx is the per-request fault plan and the record of what storage
// returned to THIS request.
type reqCtx struct {
	// plan
	failKeys  int // 0 none, 1 generic error, 2 ErrDevEUINotFound
	failKEK   int // 0 none, 1 error on NS kek, 2 error on AS kek
	failLabel bool
	failNet   bool
	failOnce  bool // the injected storage failure happens once per callback kind, the next call of that kind succeeds (a flaky back-end)
	failedK   [4]bool
	overflow  bool
	slow      int64 // virtual ns every storage callback of this request takes
	bodyShort bool
	bodyErrAt int // -1 none
	writeErr  bool
	// what the request is about (callbacks are attributed by what they ask)
	devIdx    int
	asLabelOf string // the AS KEK label configured for the request's device
	odd       bool   // legal but unusual transport of this delivery (fault batches only)
	// the window of the delivery: event numbers at hand-over and at return
	inv, ret   int64
	returned   bool
	cancelAt   int // cancel the request's context inside this storage callback (1-based count; 0 = never)
	stoCalls   int
	cancelled  bool // the client went away while the request was being handled
	cancel     func()
	kekCalls   int
	nsLabel    string // the SenderID of the request this delivery belongs to
	deliveries int
}

type world struct {
	devs     []*devRec
	byEUI    map[lorawan.EUI64]*devRec
	keks     map[string][]byte
	handler  http.Handler
	cur      [simrt.MaxTasks]*reqCtx
	faults   bool
	nNS      int
	allSlow  int64
	bare     bool // the handler is configured with the device-key callback only
	keysOnly bool // the device-key callback leaves DeviceKeys.DevEUI blank
}

var theWorld *world

// reqOf returns the request in flight on the calling task (the network
// server's own task: transport and response writer run there).
//
//go:norace
func (w *world) reqOf() *reqCtx {
	t := simrt.Current()
	if t < 0 || t >= simrt.MaxTasks || w.cur[t] == nil {
		return &reqCtx{bodyErrAt: -1, devIdx: -3}
	}
	return w.cur[t]
}

// ---- the storage log -------------------------------------------------------
//
// What storage did is recorded by WHAT it was asked (the DevEUI, the label)
// and WHEN (the simulator's global event number), not by which task asked: a
// handler may run its look-ups on the request's goroutine, on goroutines it
// starts for the request, on a pool of workers that serve every request, more
// than once, in any order. A request is judged against everything storage did
// for its DevEUI and its labels between the moment it was handed to the
// handler and the moment the handler returned.
type stoEv struct {
	kind  int8
	dev   int    // device index (keys / label / not-found events)
	label string // KEK events
	tick  int64
	nonce int
	gen   int
	kek   []byte // private copy
	dur   int64
}

const (
	seKeys     = iota + 1 // device keys served (nonce, gen)
	seNotFound            // ErrDevEUINotFound answered
	seKeysErr             // injected failure of the device-keys look-up
	seKEK                 // a KEK served (label, bytes)
	seKEKErr              // injected failure of a KEK look-up
	seLabel               // AS KEK label served
	seLabelErr            // injected failure of the label look-up
	seSlow                // a callback took dur ns of virtual time
	seKEKSet              // the store holds kek under label from here on
)

var (
	stoLog [8192]stoEv
	stoN   int
)

//go:norace
func logSto(e stoEv) {
	e.tick = simrt.Tick()
	if stoN < len(stoLog) {
		stoLog[stoN] = e
		stoN++
	}
}

//go:norace
func stoReset() {
	for i := 0; i < stoN; i++ {
		stoLog[i] = stoEv{}
	}
	stoN = 0
}

//go:norace
func stoEvents() []stoEv { return stoLog[:stoN] }

//go:norace
func copyBytes(b []byte) []byte {
	out := make([]byte, len(b))
	copy(out, b)
	return out
}

// planFor returns the fault plan of the request a callback belongs to - the
// request in flight on the calling task or on the task whose go statement
// (or timer) started it - if that request is about this device / this label;
// nil otherwise (a callback nobody can attribute is served without faults).
//
//go:norace
func (w *world) planFor(dev int, label string) *reqCtx {
	var c *reqCtx
	for t := simrt.Current(); t >= 0 && t < simrt.MaxTasks && c == nil; t = simrt.Parent(t) {
		c = w.cur[t]
	}
	if c == nil || c.returned {
		return nil
	}
	if dev >= 0 && c.devIdx != dev {
		return nil
	}
	if dev < 0 && !(label == c.asLabelOf || label == c.nsLabel || sameNetIDSpelling(label, c.nsLabel)) {
		return nil
	}
	return c
}

// slowDown: a slow storage back-end (virtual time passes inside the callback)
// and the client that goes away while storage works.
//
// The storage callbacks are harness bookkeeping outside the race detector's
// view (norace), like the scheduler's own state: a handler may call them from
// several goroutines at the same time; a real store is safe for that.
//
//go:norace
func (w *world) slowDown(c *reqCtx, dev int, label string) {
	if c == nil {
		return
	}
	c.stoCalls++
	if c.cancelAt > 0 && c.stoCalls == c.cancelAt && c.cancel != nil {
		// the network server closed the connection (its own time-out, a
		// restart): the request's context is cancelled while storage works
		c.cancelled = true
		simrt.Count(fClientGone)
		c.cancel()
	}
	if c.slow > 0 {
		logSto(stoEv{kind: seSlow, dev: dev, label: label, dur: c.slow})
		simrt.Sleep(c.slow)
	}
}

//go:norace
func (w *world) getDeviceKeys(devEUI lorawan.EUI64) (joinserver.DeviceKeys, error) {
	simrt.Seam(10)
	rec, ok := w.byEUI[devEUI]
	dev := -2
	if ok {
		dev = rec.idx
	}
	c := w.planFor(dev, "")
	fail := 0
	if c != nil {
		fail = c.failKeys
	}
	simrt.Trace(evSto, 1, uint64(fail))
	w.slowDown(c, dev, "")
	switch fail {
	case 1:
		if !(c.failOnce && c.failedK[0]) {
			c.failedK[0] = true
			logSto(stoEv{kind: seKeysErr, dev: dev})
			return joinserver.DeviceKeys{}, errInjected
		}
	case 2:
		logSto(stoEv{kind: seNotFound, dev: dev})
		return joinserver.DeviceKeys{}, joinserver.ErrDevEUINotFound
	}
	if !ok || !isKnown(rec.idx) {
		logSto(stoEv{kind: seNotFound, dev: dev})
		return joinserver.DeviceKeys{}, joinserver.ErrDevEUINotFound
	}
	n := nextNonce(rec.idx)
	if c != nil && c.overflow {
		n = 1<<24 + n
	}
	g := curGen(rec.idx)
	logSto(stoEv{kind: seKeys, dev: dev, nonce: n, gen: g})
	d := rec.gens[g]
	dk := joinserver.DeviceKeys{DevEUI: devEUI, NwkKey: lorawan.AES128Key(d.NwkKey), AppKey: lorawan.AES128Key(d.AppKey), JoinNonce: n}
	if w.keysOnly {
		// a store that returns the key material it was asked for and leaves the
		// identifier member of the record blank (the caller knows whom it asked about)
		dk.DevEUI = lorawan.EUI64{}
	}
	return dk, nil
}

//go:norace
func (w *world) getKEK(label string) ([]byte, error) {
	simrt.Seam(11)
	c := w.planFor(-1, label)
	// which of the two look-ups of a request this is follows from the label,
	// not from the order of the calls: the NS KEK is asked for under the SenderID
	which := 2
	if c != nil && c.nsLabel != "" && (label == c.nsLabel || sameNetIDSpelling(label, c.nsLabel)) {
		which = 1
	}
	simrt.Trace(evSto, 2, uint64(which))
	w.slowDown(c, -1, label)
	if c != nil && c.failKEK == which && !(c.failOnce && c.failedK[which]) {
		c.failedK[which] = true
		logSto(stoEv{kind: seKEKErr, dev: -1, label: label})
		return nil, errInjected
	}
	// (the store's own lock: a re-keyed entry is published by the operator and
	// acquired by the readers that come after it)
	atomic.LoadInt32(&kekPub)
	k := kekGet(label)
	logSto(stoEv{kind: seKEK, dev: -1, label: label, kek: copyBytes(k)})
	// storage hands out the slice it holds (as the repository's own test
	// storage does): the handler must treat it as read-only
	return k, nil
}

//go:norace
func (w *world) getASLabel(devEUI lorawan.EUI64) (string, error) {
	simrt.Seam(12)
	rec, ok := w.byEUI[devEUI]
	dev := -2
	if ok {
		dev = rec.idx
	}
	c := w.planFor(dev, "")
	simrt.Trace(evSto, 3, 0)
	w.slowDown(c, dev, "")
	if c != nil && c.failLabel && !(c.failOnce && c.failedK[3]) {
		c.failedK[3] = true
		logSto(stoEv{kind: seLabelErr, dev: dev})
		return "", errInjected
	}
	if !ok {
		return "", nil
	}
	logSto(stoEv{kind: seLabel, dev: dev})
	return rec.asLabel, nil
}

//go:norace
func (w *world) getHomeNetID(devEUI lorawan.EUI64) (lorawan.NetID, error) {
	simrt.Seam(13)
	rec, ok := w.byEUI[devEUI]
	dev := -2
	if ok {
		dev = rec.idx
	}
	c := w.planFor(dev, "")
	simrt.Trace(evSto, 4, 0)
	if c != nil && c.failNet {
		return lorawan.NetID{}, errInjected
	}
	if !ok || !isKnown(rec.idx) {
		return lorawan.NetID{}, joinserver.ErrDevEUINotFound
	}
	return rec.homeNet, nil
}

// -------------------------------------------------------------- transport

type faultyBody struct {
	b     []byte
	off   int
	short bool
	errAt int
}

func (f *faultyBody) Read(p []byte) (int, error) {
	simrt.Seam(14)
	if f.errAt >= 0 && f.off >= f.errAt {
		return 0, errors.New("injected body read error")
	}
	if f.off >= len(f.b) {
		return 0, io.EOF
	}
	n := len(p)
	if f.short && n > 7 {
		n = 7
	}
	if f.errAt >= 0 && f.off+n > f.errAt {
		n = f.errAt - f.off
	}
	if n > len(f.b)-f.off {
		n = len(f.b) - f.off
	}
	copy(p, f.b[f.off:f.off+n])
	f.off += n
	return n, nil
}
func (f *faultyBody) Close() error { return nil }

type respWriter struct {
	hdr      http.Header
	code     int
	buf      bytes.Buffer
	writeErr bool
	closed   bool // ServeHTTP has returned: the writer belongs to the server again
}

//go:norace
func (r *respWriter) isClosed() bool { return r.closed }

//go:norace
func (r *respWriter) close() { r.closed = true }

// late: the handler (a goroutine it left behind) uses the ResponseWriter
// after ServeHTTP returned - net/http forbids that; behind a real server the
// bytes would go to a recycled connection buffer, i.e. into another request.
func (r *respWriter) late(what string) {
	simrt.Count(cLateWrite)
	simrt.Report("j5.response-written-after-return", "the handler called "+what+" on the http.ResponseWriter after ServeHTTP had returned (a goroutine left behind by the request still answers): behind a real server these bytes land in a connection that serves another request")
}

func (r *respWriter) Header() http.Header {
	if r.isClosed() {
		return http.Header{}
	}
	return r.hdr
}
func (r *respWriter) WriteHeader(c int) {
	if r.isClosed() {
		r.late("WriteHeader")
		return
	}
	if r.code == 0 {
		r.code = c
	}
}
func (r *respWriter) Write(b []byte) (int, error) {
	simrt.Seam(15)
	if r.isClosed() {
		r.late("Write")
		return 0, http.ErrHandlerTimeout
	}
	if r.code == 0 {
		r.code = 200
	}
	if r.writeErr {
		n := len(b) / 2
		r.buf.Write(b[:n])
		return n, errors.New("injected write error")
	}
	return r.buf.Write(b)
}

// serve delivers one request body to the real handler on the calling task.
func (w *world) serve(body []byte, c *reqCtx, hdr http.Header) (int, []byte) {
	c.deliveries++
	c.returned = false
	c.inv = simrt.Tick()
	defer func() { c.ret = simrt.Tick(); c.returned = true }()
	fb := &faultyBody{b: body, short: c.bodyShort, errAt: c.bodyErrAt}
	req, _ := http.NewRequest(http.MethodPost, "http://js.sim/", fb)
	// (the headers the client set travel with the request; a raw peer sends JSON)
	for k, v := range hdr { // det-ok: copied into a map, order irrelevant
		req.Header[k] = append([]string(nil), v...)
	}
	if req.Header.Get("Content-Type") == "" {
		req.Header.Set("Content-Type", "application/json")
	}
	c.stoCalls = 0
	if c.cancelAt > 0 {
		ctx, cancel := context.WithCancel(context.Background())
		c.cancel = cancel
		defer cancel()
		req = req.WithContext(ctx)
	}
	// a server sees the declared length of an identity-encoded body, and -1
	// for a chunked one (the body reader delivers what it delivers either way)
	if !w.faults || (len(body)+c.deliveries)%3 != 0 {
		req.ContentLength = int64(len(body))
		req.Header.Set("Content-Length", fmt.Sprint(len(body)))
	} else {
		req.ContentLength = -1
		req.TransferEncoding = []string{"chunked"}
		c.odd = true // (a stricter server may insist on a declared length)
	}
	rw := &respWriter{hdr: http.Header{}, writeErr: c.writeErr}
	if enterHandler() > 1 {
		simrt.Count(cConcurrent)
		simrt.Count(cNontrivial)
	}
	w.handler.ServeHTTP(rw, req)
	rw.close()
	leaveHandler()
	if rw.code == 0 {
		rw.code = 200
	}
	return rw.code, rw.buf.Bytes()
}

// simTransport is what http.DefaultTransport is in the worker: the backend
// client's requests are served by the simulated join-server on the calling
// task (the way net/http would serve them on a per-connection goroutine).
type simTransport struct{}

type lossPlan struct {
	loseRequest  bool
	loseResponse bool
	truncate     bool
}

var plans [simrt.MaxTasks]*lossPlan

func (simTransport) RoundTrip(req *http.Request) (*http.Response, error) {
	w := theWorld
	if w == nil {
		return nil, errors.New("no simulated world")
	}
	body, err := io.ReadAll(req.Body)
	if err != nil {
		return nil, err
	}
	t := simrt.Current()
	p := plans[t]
	plans[t] = nil
	if p != nil && p.loseRequest {
		simrt.Count(fReqLost)
		return nil, errors.New("injected: request lost")
	}
	code, out := w.serve(body, w.reqOf(), req.Header)
	if p != nil && p.loseResponse {
		simrt.Count(fRespLost)
		return nil, errors.New("injected: response lost")
	}
	if p != nil && p.truncate && len(out) > 10 {
		simrt.Count(fTruncResp)
		out = out[:len(out)/2]
	}
	return &http.Response{StatusCode: code, Status: fmt.Sprintf("%d", code), Body: io.NopCloser(bytes.NewReader(out)), Header: http.Header{}, Request: req, ProtoMajor: 1, ProtoMinor: 1}, nil
}

// ------------------------------------------------------------------ build

func build(sw *sim.World) {
	w := &world{byEUI: map[lorawan.EUI64]*devRec{}, keks: map[string][]byte{}}
	theWorld = w
	for i := range plans {
		plans[i] = nil
	}
	resetHandlerCount()
	resetGens()
	r := sim.NewRand(simrt.Raw())
	nDev := 1 + simrt.Choose(6)
	nNS := 1 + simrt.Choose(3)
	// now and then a busy join-server: a dozen network-server connections at
	// once and dozens of devices (whatever the handler bounds - a pool, a
	// semaphore, a cache - fills up)
	busy := simrt.Choose(30) == 1
	if busy {
		nDev = 12 + simrt.Choose(36)
		nNS = 6 + simrt.Choose(24)
		simrt.Count(cBusy)
		// half of the busy servers sit on a storage back-end that is slow for
		// everybody (requests pile up inside the handler)
		if simrt.Choose(2) == 1 {
			w.allSlow = []int64{20e6, 200e6, 900e6}[simrt.Choose(3)]
		}
	}
	w.faults = simrt.Choose(3) != 0
	w.nNS = nNS
	// a join-server configured with the device-key callback only: no KEK for
	// anybody, no label for any device (session keys travel in the clear), no
	// home NetID service
	w.bare = !busy && simrt.Choose(8) == 1
	if w.bare {
		simrt.Count(cBare)
	}
	w.keysOnly = simrt.Choose(4) == 1
	if w.keysOnly {
		simrt.Count(cKeysOnly)
	}
	for i := 0; i < nDev; i++ {
		rec := &devRec{idx: i, known: true}
		setKnown(i, true)
		r.Fill(rec.dev.DevEUI[:])
		rec.dev.DevEUI[0] = byte(i + 1) // distinct
		r.Fill(rec.dev.JoinEUI[:])
		r.Fill(rec.dev.NwkKey[:])
		r.Fill(rec.dev.AppKey[:])
		// root keys are 128 arbitrary bits: now and then one of them is all
		// zeros (a provisioning default), or the two are equal
		switch r.Intn(20) {
		case 0:
			rec.dev.NwkKey = spec.Key{}
		case 1:
			rec.dev.AppKey = spec.Key{}
		case 2:
			rec.dev.AppKey = rec.dev.NwkKey
		}
		r.Fill(rec.homeNet[:])
		if r.Intn(2) == 0 && !w.bare {
			rec.asLabel = fmt.Sprintf("as-%d", i)
			if r.Intn(5) != 0 {
				w.keks[rec.asLabel] = genKEK(r)
			} // else: a label without a KEK in the store
		}
		if i > 0 && r.Intn(6) == 0 {
			rec.known = false
			setKnown(i, false)
		}
		setNonce(i, r.Intn(1<<20))
		switch r.Intn(10) {
		case 0:
			// a long-lived device: the counter reaches the largest legal
			// JoinNonce (and then runs over) within this history
			setNonce(i, 1<<24-2-r.Intn(4))
			simrt.Count(fNonceEdge)
		case 1:
			setNonce(i, -1+r.Intn(2)) // first nonces 0 / 1
		}
		rec.gens = []spec.Device{rec.dev}
		for g := 1; g < 3; g++ {
			d := rec.dev
			r.Fill(d.NwkKey[:])
			r.Fill(d.AppKey[:])
			rec.gens = append(rec.gens, d)
		}
		w.devs = append(w.devs, rec)
		w.byEUI[lorawan.EUI64(rec.dev.DevEUI)] = rec
	}
	netIDs := make([]lorawan.NetID, nNS)
	senderIDs := make([]string, nNS)
	for i := range netIDs {
		r.Fill(netIDs[i][:])
		netIDs[i][2] = byte(i + 1)
		// a network server may spell its NetID in any form the backend
		// interfaces accept as hexadecimal; the NS KEK is configured under the
		// SenderID as that server sends it
		senderIDs[i] = netIDs[i].String()
		switch r.Intn(4) {
		case 0:
			senderIDs[i] = strings.ToUpper(senderIDs[i])
		case 1:
			senderIDs[i] = "0x" + senderIDs[i]
		}
		if r.Intn(2) == 0 && !w.bare {
			// (whether a join-server canonicalises the NetID before looking the
			// KEK up is not defined: the store answers both spellings)
			k := genKEK(r)
			w.keks[senderIDs[i]] = k
			w.keks[netIDs[i].String()] = k
		}
	}
	if r.Intn(4) == 0 && !w.bare {
		// a store that answers every label, also the empty one, with a default KEK
		w.keks[""] = r.Bytes(16)
	}
	if w.faults && r.Intn(4) == 0 {
		// a KEK of invalid length somewhere in the store
		for _, l := range sortedKeys(w.keks) {
			w.keks[l] = r.Bytes(5 + r.Intn(6))
			break
		}
	}
	// the store the callbacks read (mutable: an operator may re-key a label);
	// keks0 follows every change the HARNESS makes, so that a difference at the
	// end of the run is a write by the handler into data storage handed out
	kekReset()
	stoReset()
	for _, l := range sortedKeys(w.keks) {
		kekSet(l, w.keks[l])
	}
	sw.Finish = append(sw.Finish, func() {
		for _, l := range kekLabels() {
			if !bytes.Equal(kekGet(l), kekWant(l)) {
				simrt.Report("storage.kek-modified", fmt.Sprintf("the KEK stored under label %q should be %x (as the operator last set it) and is %x after the run: the handler wrote into data a storage callback returned", l, kekWant(l), kekGet(l)))
			}
		}
	})
	// other handlers of the same process (another listener, another tenant),
	// created before and after the one the requests go through, each with a
	// configuration of its own that serves nobody here
	nDecoy := 0
	if simrt.Choose(5) == 1 {
		nDecoy = 1 + simrt.Choose(2)
		simrt.Count(cDecoy)
	}
	decoy := func(k int) {
		kek := r.Bytes(16)
		called := func(what string) {
			// (counted: what such a call does to an ANSWER of the handler under
			// test is judged by the statement's own oracles)
			_ = what
			simrt.Count(cDecoyCalled)
		}
		_, err := joinserver.NewHandler(joinserver.HandlerConfig{
			GetDeviceKeysByDevEUIFunc: func(lorawan.EUI64) (joinserver.DeviceKeys, error) {
				called("device keys")
				return joinserver.DeviceKeys{}, joinserver.ErrDevEUINotFound
			},
			GetKEKByLabelFunc: func(string) ([]byte, error) { called("KEK"); return kek, nil },
			GetASKEKLabelByDevEUIFunc: func(lorawan.EUI64) (string, error) {
				called("AS KEK label")
				return fmt.Sprintf("decoy-%d", k), nil
			},
			GetHomeNetIDByDevEUIFunc: func(lorawan.EUI64) (lorawan.NetID, error) {
				called("home NetID")
				return lorawan.NetID{0xde, 0xc0, byte(k)}, nil
			},
		})
		if err != nil {
			panic(err)
		}
	}
	if nDecoy > 0 {
		decoy(0)
	}
	cfg := joinserver.HandlerConfig{GetDeviceKeysByDevEUIFunc: w.getDeviceKeys}
	if !w.bare {
		cfg.GetKEKByLabelFunc = w.getKEK
		cfg.GetASKEKLabelByDevEUIFunc = w.getASLabel
		cfg.GetHomeNetIDByDevEUIFunc = w.getHomeNetID
	}
	h, err := joinserver.NewHandler(cfg)
	if err != nil && w.bare {
		// a join-server that insists on all four callbacks: the same
		// configuration, spelled with callbacks that have nothing to offer
		simrt.Count(cBareRefused)
		cfg.GetKEKByLabelFunc = w.getKEK
		cfg.GetASKEKLabelByDevEUIFunc = w.getASLabel
		cfg.GetHomeNetIDByDevEUIFunc = w.getHomeNetID
		h, err = joinserver.NewHandler(cfg)
	}
	if err != nil {
		panic(err)
	}
	w.handler = h
	if nDecoy > 1 {
		decoy(1)
	}
	sw.Notef("W-JOIN: %d devices, %d network-server tasks, faults=%v", nDev, nNS, w.faults)
	for i := 0; i < nNS; i++ {
		i := i
		n := 2 + simrt.Choose(12*sim.Scale)
		if busy {
			n = 2 + simrt.Choose(4)
		}
		sub := simrt.Raw()
		sw.Spawn(fmt.Sprintf("ns%d", i), func() { nsTask(w, i, netIDs[i], senderIDs[i], n, sub) })
	}
}

// genKEK: 128, 192 or 256 arbitrary bits - now and then bits that happen to
// be printable hexadecimal text (an operator pasted a pass-phrase).
func genKEK(r *sim.Rand) []byte {
	k := r.Bytes([]int{16, 24, 32}[r.Intn(3)])
	if r.Intn(6) == 0 {
		for i := range k {
			k[i] = "0123456789abcdefABCDEF"[r.Intn(22)]
		}
		simrt.Count(cHexTextKEK)
	}
	return k
}

func sortedKeys(m map[string][]byte) []string {
	var ks []string
	for k := range m {
		ks = append(ks, k)
	}
	for i := 1; i < len(ks); i++ {
		for j := i; j > 0 && ks[j-1] > ks[j]; j-- {
			ks[j-1], ks[j] = ks[j], ks[j-1]
		}
	}
	return ks
}

// ---------------------------------------------------------------- NS task

type request struct {
	macVersion  string // what the NS believes the device speaks; independent of OptNeg
	sender      string // SenderID as this network server spells its NetID
	hexPrefix   bool   // hexadecimal members of the body carry the 0x prefix
	kind        int    // 0 join, 1..3 rejoin type 0..2, 4 homeNS
	gen         int    // key generation the device used to build the request
	dev         spec.Device
	rec         *devRec
	nonce       uint16 // DevNonce or RJCount
	phy         []byte
	badMIC      bool
	optNeg      bool
	devAddr     lorawan.DevAddr
	dl          lorawan.DLSettings
	rxDelay     int
	cfList      []byte
	netID       lorawan.NetID
	txID        uint32
	joinEUI     [8]byte
	viaClient   bool
	rawKind     int  // 0 well-formed, 1 empty, 2 junk, 3 wrong message type, 4 bad hex
	knownAtSend bool // storage knew the device when the request was built (it never forgets one)
	odd         bool // legal but unusual input (fault batches only): a stricter join-server may refuse it
}

func genCFList(r *sim.Rand) []byte {
	b := make([]byte, 16)
	if r.Intn(2) == 0 {
		n := 1 + r.Intn(5)
		for i := 0; i < 5; i++ {
			// channel frequencies in units of 100 Hz (400 MHz .. 1 GHz), unused slots trailing
			f := uint32(4000000 + r.Intn(6000000))
			if r.Intn(10) == 0 {
				f = []uint32{1, 0xffffff, 0xfffffe, 0x800000}[r.Intn(4)] // ends of the 24-bit field
			}
			if i >= n {
				f = 0
			}
			if i > 0 && i < n-1 && r.Intn(8) == 0 {
				f = 0 // an unused slot between used ones: positions are channel indices
			}
			b[3*i], b[3*i+1], b[3*i+2] = byte(f), byte(f>>8), byte(f>>16)
		}
		b[15] = 0
		return b
	}
	k := 1 + r.Intn(5)
	for i := 0; i < k; i++ {
		b[2*i], b[2*i+1] = byte(r.Intn(256)), byte(r.Intn(256))
	}
	// the last mask must be non-zero for the encoding to be canonical
	if b[2*(k-1)] == 0 && b[2*(k-1)+1] == 0 {
		b[2*(k-1)] = 1
	}
	b[15] = 1
	return b
}

func nsTask(w *world, id int, netID lorawan.NetID, senderID string, n int, sub uint64) {
	r := sim.NewRand(sub)
	me := simrt.Current()
	var txID uint32 = uint32(id+1) * 100000
	for k := 0; k < n+1; k++ {
		if simrt.Dead() {
			return
		}
		sim.Op()
		live := k == n // last request: faults have stopped (J6)
		rq := &request{netID: netID, sender: senderID}
		txID++
		rq.txID = txID
		rq.rec = w.devs[r.Intn(len(w.devs))]
		if live {
			for _, d := range w.devs {
				if isKnown(d.idx) {
					rq.rec = d
				}
			}
		}
		switch x := r.Intn(10); {
		case x < 6 || live:
			rq.kind = 0
		case x < 9:
			rq.kind = 1 + r.Intn(3)
		default:
			rq.kind = 4
			if w.bare {
				rq.kind = 0 // (no home NetID service configured)
			}
		}
		rq.joinEUI = rq.rec.dev.JoinEUI
		rq.nonce = uint16(r.Intn(1 << 16))
		if r.Intn(8) == 0 {
			rq.nonce = []uint16{0, 1, 0xff, 0x100, 0xfffe, 0xffff}[r.Intn(6)]
		}
		rq.optNeg = r.Intn(2) == 0
		// what the NS believes the device speaks: consistent with the request
		// (1.1 when OptNeg, 1.0.x otherwise; rejoin-requests exist in 1.1 only)
		if rq.optNeg || rq.kind >= 1 && rq.kind <= 3 {
			rq.macVersion = "1.1.0"
		} else {
			rq.macVersion = []string{"1.0.2", "1.0.3", "1.0.4"}[r.Intn(3)]
		}
		oddVersion := []string{"1.0.2", "1.0.3", "1.0.4", "1.1.0", ""}[r.Intn(5)]
		r.Fill(rq.devAddr[:])
		switch r.Intn(12) {
		case 0:
			rq.devAddr = lorawan.DevAddr{}
		case 1:
			rq.devAddr = lorawan.DevAddr{0xff, 0xff, 0xff, 0xff}
		}
		rq.dl = lorawan.DLSettings{OptNeg: rq.optNeg, RX2DataRate: uint8(r.Intn(16)), RX1DROffset: uint8(r.Intn(8))}
		rq.rxDelay = r.Intn(16)
		if r.Intn(3) == 0 {
			rq.cfList = genCFList(r)
			simrt.Count(cCFList)
		}
		c := &reqCtx{bodyErrAt: -1, nsLabel: senderID, devIdx: rq.rec.idx, asLabelOf: rq.rec.asLabel}
		if !live {
			c.slow = w.allSlow
		}
		faults := w.faults && !live
		if faults {
			if r.Intn(8) == 0 {
				rq.rxDelay = []int{16, 255, 256, 300, -1, 271}[r.Intn(6)]
				simrt.Count(fRxDelay)
			}
			if r.Intn(8) == 0 {
				rq.badMIC = true
			}
			switch r.Intn(14) {
			case 0:
				c.failKeys = 1
			case 1:
				c.failKeys = 2
			case 2:
				c.failKEK = 1
			case 3:
				c.failKEK = 2
			case 4:
				c.failLabel = true
			case 5:
				c.failNet = true
			case 6:
				c.overflow = true
			case 7, 8:
				// a slow storage back-end: every callback of this request takes
				// this long (virtual time)
				c.slow = []int64{50e6, 50e6, 900e6, 2e9, 4e9, 8e9, 31e9, 100e9}[r.Intn(8)]
			}
			if r.Intn(4) == 0 {
				c.bodyShort = true
			}
			if r.Intn(16) == 0 {
				c.cancelAt = 1 + r.Intn(4)
			}
			c.failOnce = r.Intn(3) == 0
			if r.Intn(4) == 0 && oddVersion != rq.macVersion {
				// a MACVersion that does not fit the request (or none): a stricter
				// join-server may refuse it; a Success is judged like any other
				rq.macVersion = oddVersion
				rq.odd = true
			}
		}
		// the operator provisions a device that was unknown so far (requests for
		// it were answered UnknownDevEUI until now and must succeed from now on)
		if !live && r.Intn(6) == 0 {
			for _, d := range w.devs {
				if !isKnown(d.idx) {
					setKnown(d.idx, true)
					simrt.Count(fProvision)
					break
				}
			}
		}
		// the operator re-keys a KEK label: a new slice in the store, or the
		// bytes of the stored slice rewritten in place (only in worlds with ONE
		// network-server task and while no request is inside the handler: the
		// store does not write under a reader, and program order is the
		// synchronisation between the last reader and the rewrite)
		if faults && r.Intn(30) == 0 {
			ls := kekLabels()
			if len(ls) > 0 {
				l := ls[r.Intn(len(ls))]
				old := kekGet(l)
				if validKEKLen(old) {
					nk := r.Bytes(len(old))
					if r.Intn(2) == 0 {
						kekSet(l, nk)
						atomic.AddInt32(&kekPub, 1)
						simrt.Count(fKEKRotate)
					} else if w.nNS == 1 && !handlerBusy() {
						ownerWriteKEK(old, nk)
						kekRewritten(old)
						simrt.Count(fKEKInPlace)
					}
				}
			}
		}
		// key rotation: the DevEUI is re-provisioned with new root keys (device
		// and storage switch together; requests in flight see either side)
		if faults && r.Intn(10) == 0 {
			bumpGen(rq.rec.idx, len(rq.rec.gens))
			simrt.Count(fRotate)
		}
		rq.gen = curGen(rq.rec.idx)
		rq.knownAtSend = isKnown(rq.rec.idx)
		rq.dev = rq.rec.gens[rq.gen]
		// the device builds its request with its own (spec) implementation
		var netLE [3]byte
		copy(netLE[:], spec.Reverse(netID[:]))
		switch rq.kind {
		case 0:
			rq.phy = rq.dev.JoinRequest(rq.nonce)
		case 1, 2, 3:
			var k spec.Key
			r.Fill(k[:])
			rq.phy = rq.dev.RejoinRequest(byte(rq.kind-1), netLE, rq.nonce, k)
		}
		if rq.badMIC && rq.kind == 0 && r.Intn(3) == 0 {
			// a MIC that is a correct CMAC - under another key: the device's
			// other root key (keys provisioned the wrong way round), the all-zero key
			other := rq.dev.AppKey
			if r.Intn(3) == 0 {
				other = spec.Key{}
			}
			// (not a wrong MIC if storage may hold that key as the device's
			// NwkKey in some generation)
			for _, g := range rq.rec.gens {
				if other == g.NwkKey {
					other = rq.dev.NwkKey
				}
			}
			if other != rq.dev.NwkKey {
				msg := rq.phy[:len(rq.phy)-4]
				mic := spec.JoinRequestMIC(other, msg)
				copy(rq.phy[len(rq.phy)-4:], mic[:])
				simrt.Count(fMICOtherKey)
			} else {
				rq.phy[len(rq.phy)-1] ^= 1
			}
		} else if rq.badMIC && rq.kind <= 3 {
			if r.Intn(2) == 0 {
				rq.phy[len(rq.phy)-1-r.Intn(4)] ^= 1 << uint(r.Intn(8))
			} else {
				// a corrupted DevNonce / RJCount octet (the two octets in front of
				// the MIC); the EUIs stay: the frame still names the device the
				// message is about
				rq.phy[len(rq.phy)-6+r.Intn(2)] ^= 1 << uint(r.Intn(8))
			}
		}
		rq.viaClient = r.Intn(3) != 0
		if !rq.viaClient && faults && r.Intn(3) == 0 {
			rq.rawKind = 1 + r.Intn(5)
			if rq.rawKind == 5 && rq.kind == 4 {
				rq.rawKind = 3
			}
		}
		w.cur[me] = c
		doRequest(w, r, rq, c, faults, live)
		w.cur[me] = nil
	}
}

// ownerWriteKEK: the store rewrites a key it owns (the name marks a write a
// caller is entitled to make, see the driver's race attribution).
func ownerWriteKEK(dst, src []byte) { copy(dst, src) }

func countFaults(c *reqCtx, rq *request) {
	if c.failKeys == 1 {
		simrt.Count(fStoKeys)
	}
	if c.failKeys == 2 || !isKnown(rq.rec.idx) {
		simrt.Count(fUnknown)
	}
	if c.failKEK > 0 {
		simrt.Count(fStoKEK)
	}
	if c.failLabel {
		simrt.Count(fStoLabel)
	}
	if c.failNet {
		simrt.Count(fStoNet)
	}
	if c.overflow {
		simrt.Count(fNonce)
	}
	if c.slow > 0 {
		simrt.Count(fStoSlow)
	}
	if c.slow >= 1e9 {
		simrt.Count(fSlowLong)
	}
	if c.bodyShort {
		simrt.Count(fBodyShort)
	}
	if rq.badMIC {
		simrt.Count(fBadMIC)
	}
}

func doRequest(w *world, r *sim.Rand, rq *request, c *reqCtx, faults, live bool) {
	countFaults(c, rq)
	simrt.Trace(evReq, uint64(rq.kind), uint64(rq.txID))
	sender := rq.sender
	receiver := hex.EncodeToString(rq.joinEUI[:])
	switch rq.kind {
	case 0:
		simrt.Count(cJoin)
	case 4:
		simrt.Count(cHomeNS)
	default:
		simrt.Count(cRejoin)
	}
	if rq.optNeg && rq.kind == 0 {
		simrt.Count(cOptNeg)
	}
	if live {
		simrt.Count(cLive)
	}

	if rq.viaClient {
		simrt.Count(cViaClient)
		cl, err := backend.NewClient(backend.ClientConfig{SenderID: sender, ReceiverID: receiver, Server: "http://js.sim/"})
		if err != nil {
			simrt.Report("harness:client", err.Error())
			return
		}
		me := simrt.Current()
		attempts := 1
		if faults && r.Intn(5) == 0 {
			plans[me] = &lossPlan{loseResponse: true}
			attempts = 2
		} else if faults && r.Intn(8) == 0 {
			plans[me] = &lossPlan{loseRequest: true}
			attempts = 2
		} else if faults && r.Intn(8) == 0 {
			plans[me] = &lossPlan{truncate: true}
			attempts = 2
		}
		for a := 0; a < attempts; a++ {
			if a > 0 {
				simrt.Count(fRetryDup)
				// the retry is a fresh delivery: new record, same plan
				*c = reqCtx{bodyErrAt: -1, nsLabel: c.nsLabel, devIdx: c.devIdx, asLabelOf: c.asLabelOf, failKeys: c.failKeys, failKEK: c.failKEK, failLabel: c.failLabel, failNet: c.failNet, overflow: c.overflow, bodyShort: c.bodyShort, slow: c.slow, cancelAt: c.cancelAt, failOnce: c.failOnce}
			}
			var base backend.BasePayloadResult
			var got interface{}
			var cerr error
			bp := backend.BasePayload{TransactionID: rq.txID}
			switch rq.kind {
			case 0:
				ans, err := cl.JoinReq(context.Background(), backend.JoinReqPayload{BasePayload: bp, MACVersion: rq.macVersion, PHYPayload: backend.HEXBytes(rq.phy),
					DevEUI: lorawan.EUI64(rq.rec.dev.DevEUI), DevAddr: rq.devAddr, DLSettings: rq.dl, RxDelay: rq.rxDelay, CFList: backend.HEXBytes(rq.cfList)})
				base, got, cerr = ans.BasePayloadResult, ans, err
			case 4:
				ans, err := cl.HomeNSReq(context.Background(), backend.HomeNSReqPayload{BasePayload: bp, DevEUI: lorawan.EUI64(rq.rec.dev.DevEUI)})
				base, got, cerr = ans.BasePayloadResult, ans, err
			default:
				ans, err := cl.RejoinReq(context.Background(), backend.RejoinReqPayload{BasePayload: bp, MACVersion: rq.macVersion, PHYPayload: backend.HEXBytes(rq.phy),
					DevEUI: lorawan.EUI64(rq.rec.dev.DevEUI), DevAddr: rq.devAddr, DLSettings: rq.dl, RxDelay: rq.rxDelay, CFList: backend.HEXBytes(rq.cfList)})
				base, got, cerr = ans.BasePayloadResult, ans, err
			}
			if base.Result.ResultCode == "" {
				// no answer reached the NS (lost / truncated): retry
				if cerr == nil {
					simrt.Report("j3.client", "backend client returned neither an answer nor an error")
				}
				continue
			}
			judge(w, rq, c, 200, base, got, sender, receiver, live)
			return
		}
		return
	}

	// raw HTTP: the NS (or a confused peer) writes the body itself
	simrt.Count(cRaw)
	body := rawBody(rq, sender, receiver)
	switch rq.rawKind {
	case 1:
		body = nil
		simrt.Count(fBodyEmpty)
	case 2:
		body = []byte(`{"ProtocolVersion":"1.0","SenderID":"` + sender + `","MessageType":"JoinReq", "PHYPayload": [1,2`)
		simrt.Count(fBodyJunk)
	case 3:
		body = bytes.Replace(body, []byte(`"MessageType":"JoinReq"`), []byte(`"MessageType":"PRStartReq"`), 1)
		body = bytes.Replace(body, []byte(`"MessageType":"RejoinReq"`), []byte(`"MessageType":"XmitDataAns"`), 1)
		body = bytes.Replace(body, []byte(`"MessageType":"HomeNSReq"`), []byte(`"MessageType":""`), 1)
		simrt.Count(fWrongType)
	case 4:
		body = bytes.Replace(body, []byte(`"DevEUI":"`), []byte(`"DevEUI":"zz`), 1)
		simrt.Count(fBodyJunk)
	case 5:
		// message type and frame type disagree: a JoinReq message carrying a
		// rejoin-request frame and vice versa
		if rq.kind == 0 {
			body = bytes.Replace(body, []byte(`"MessageType":"JoinReq"`), []byte(`"MessageType":"RejoinReq"`), 1)
		} else {
			body = bytes.Replace(body, []byte(`"MessageType":"RejoinReq"`), []byte(`"MessageType":"JoinReq"`), 1)
		}
		simrt.Count(fConfused)
	}
	if rq.rawKind == 0 && rq.kind != 4 && r.Intn(4) == 0 {
		// hexadecimal members may carry the 0x prefix (the backend types accept
		// it, like the SenderID spelling above)
		body = bytes.Replace(body, []byte(`"PHYPayload":"`), []byte(`"PHYPayload":"0x`), 1)
		if rq.cfList != nil && r.Intn(2) == 0 {
			body = bytes.Replace(body, []byte(`"CFList":"`), []byte(`"CFList":"0x`), 1)
		}
		// (which spellings of a hexadecimal member the HTTP layer takes is not
		// in the statement: a stricter join-server may refuse this body; a
		// Success answer is judged in full)
		rq.odd = true
		rq.hexPrefix = true
		simrt.Count(cHexPrefix)
	}
	if faults && rq.rawKind == 0 && rq.cfList == nil && rq.kind != 4 && r.Intn(3) == 0 {
		rq.odd = true
		// a non-Go peer may send the optional member explicitly empty
		body = bytes.Replace(body, []byte(`"RxDelay":`), []byte(`"CFList":"","RxDelay":`), 1)
		simrt.Count(cEmptyCFList)
	}
	if faults && rq.rawKind == 0 && r.Intn(6) == 0 && len(body) > 4 {
		c.bodyErrAt = r.Intn(len(body))
		simrt.Count(fBodyErr)
	}
	if faults && rq.rawKind == 0 && c.bodyErrAt < 0 && r.Intn(8) == 0 {
		c.writeErr = true
		simrt.Count(fWriteErr)
	}
	code, out := w.serve(body, c, nil)
	if c.writeErr {
		// the response was cut by the writer: nothing to judge but that the
		// handler survived; retry without the fault
		*c = reqCtx{bodyErrAt: -1, nsLabel: c.nsLabel, devIdx: c.devIdx, asLabelOf: c.asLabelOf, failKeys: c.failKeys, failKEK: c.failKEK, failLabel: c.failLabel, failNet: c.failNet, overflow: c.overflow, slow: c.slow, failOnce: c.failOnce}
		simrt.Count(fRetryDup)
		code, out = w.serve(body, c, nil)
	}
	if rq.rawKind == 5 {
		// there is no valid request here: whatever the answer is, it must not be Success
		var res struct {
			Result backend.Result `json:"Result"`
		}
		json.Unmarshal(out, &res)
		if res.Result.ResultCode == backend.Success && !rq.badMIC {
			// (a join-server that goes by the frame it finds may answer it for what it is)
			simrt.Count(cOddRefused)
		} else if res.Result.ResultCode == backend.Success {
			simrt.Report("j3.type-confusion-accepted", fmt.Sprintf("a message whose MessageType and frame type disagree (request kind %d sent as the other type, wrong-MIC=%v) was answered Success: %s", rq.kind, rq.badMIC, firstN(out, 300)))
		}
		return
	}
	malformed := rq.rawKind != 0 || c.bodyErrAt >= 0
	if malformed {
		// J3: must be a non-Success result with a 4xx/5xx status
		var res struct {
			Result     backend.Result     `json:"Result"`
			ResultCode backend.ResultCode `json:"ResultCode"`
		}
		json.Unmarshal(out, &res)
		rc := res.Result.ResultCode
		if rc == "" {
			rc = res.ResultCode
		}
		if rc == backend.Success && rq.rawKind == 4 {
			simrt.Count(cOddRefused) // (a laxer join-server may take the DevEUI from the frame)
		} else if rc == backend.Success {
			simrt.Report("j3.malformed-accepted", fmt.Sprintf("malformed request (kind %d, body error at %d) answered Success (HTTP %d): %s", rq.rawKind, c.bodyErrAt, code, firstN(out, 300)))
		}
		return
	}
	if rq.hexPrefix {
		// a join-server that reads hexadecimal members strictly refuses the body
		// before it knows what the request is about: however it says so
		var res struct {
			Result backend.Result `json:"Result"`
		}
		if json.Unmarshal(out, &res) != nil || res.Result.ResultCode != backend.Success {
			simrt.Count(cOddRefused)
			return
		}
	}
	if !json.Valid(out) && (c.cancelled || c.slow > 0) {
		// nobody is there to read the answer any more, or the join-server gave
		// up on slow storage in its own way (say, a plain-text 503): not judged
		simrt.Count(cSlowFail)
		return
	}
	var base backend.BasePayloadResult
	var got interface{}
	switch rq.kind {
	case 0:
		var ans backend.JoinAnsPayload
		if err := json.Unmarshal(out, &ans); err != nil {
			simrt.Report("j3.answer-json", fmt.Sprintf("answer is not a JoinAns: %v: %s", err, firstN(out, 300)))
			return
		}
		base, got = ans.BasePayloadResult, ans
	case 4:
		var ans backend.HomeNSAnsPayload
		if err := json.Unmarshal(out, &ans); err != nil {
			simrt.Report("j3.answer-json", fmt.Sprintf("answer is not a HomeNSAns: %v: %s", err, firstN(out, 300)))
			return
		}
		base, got = ans.BasePayloadResult, ans
	default:
		var ans backend.RejoinAnsPayload
		if err := json.Unmarshal(out, &ans); err != nil {
			simrt.Report("j3.answer-json", fmt.Sprintf("answer is not a RejoinAns: %v: %s", err, firstN(out, 300)))
			return
		}
		base, got = ans.BasePayloadResult, ans
	}
	judge(w, rq, c, code, base, got, sender, receiver, live)
}

func firstN(b []byte, n int) string {
	if len(b) > n {
		return string(b[:n]) + "…"
	}
	return string(b)
}

func rawBody(rq *request, sender, receiver string) []byte {
	bp := backend.BasePayload{ProtocolVersion: "1.0", SenderID: sender, ReceiverID: receiver, TransactionID: rq.txID}
	var v interface{}
	switch rq.kind {
	case 0:
		bp.MessageType = backend.JoinReq
		v = backend.JoinReqPayload{BasePayload: bp, MACVersion: rq.macVersion, PHYPayload: backend.HEXBytes(rq.phy), DevEUI: lorawan.EUI64(rq.rec.dev.DevEUI),
			DevAddr: rq.devAddr, DLSettings: rq.dl, RxDelay: rq.rxDelay, CFList: backend.HEXBytes(rq.cfList)}
	case 4:
		bp.MessageType = backend.HomeNSReq
		v = backend.HomeNSReqPayload{BasePayload: bp, DevEUI: lorawan.EUI64(rq.rec.dev.DevEUI)}
	default:
		bp.MessageType = backend.RejoinReq
		v = backend.RejoinReqPayload{BasePayload: bp, MACVersion: rq.macVersion, PHYPayload: backend.HEXBytes(rq.phy), DevEUI: lorawan.EUI64(rq.rec.dev.DevEUI),
			DevAddr: rq.devAddr, DLSettings: rq.dl, RxDelay: rq.rxDelay, CFList: backend.HEXBytes(rq.cfList)}
	}
	b, err := json.Marshal(v)
	if err != nil {
		panic(err)
	}
	return b
}
