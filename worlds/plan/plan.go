// Package plan is world W-PLAN (property C15): operation histories
// {AddChannel, Disable, Enable} with arbitrary arguments on every band
// configuration, observer steps after every operation (refinement against
// the channel-list model of verif/spec), error-not-panic discipline, the
// CFList rule, and closure of everything the band hands out under the MAC
// layer and the wire (join-accept with CFList; frequency-carrying MAC
// commands; LinkADRReq payloads).
package plan

import (
	"fmt"
	"time"

	"github.com/brocaar/lorawan"
	"github.com/brocaar/lorawan/band"

	"verif/sim"
	"verif/simrt"
	"verif/spec"
	"verif/worlds"
)

func init() { worlds.Register("plan", build) }

var (
	evOp  = sim.RegisterEv(600, "op")
	evObs = sim.RegisterEv(601, "observe")

	cNontrivial     = simrt.RegisterCounter("nontrivial")
	cAdd            = simrt.RegisterCounter("op_add_channel")
	cDisable        = simrt.RegisterCounter("op_disable")
	cEnable         = simrt.RegisterCounter("op_enable")
	cObserve        = simrt.RegisterCounter("op_observer_steps")
	cBadIdx         = simrt.RegisterCounter("fault_out_of_range_or_negative_index")
	cJunkArgs       = simrt.RegisterCounter("fault_junk_addchannel_arguments")
	cDupFreq        = simrt.RegisterCounter("fault_duplicate_of_standard_frequency")
	cZeroFreq       = simrt.RegisterCounter("fault_frequency_zero")
	cFixedAdd       = simrt.RegisterCounter("probe_addchannel_on_fixed_plan")
	cAddOther       = simrt.RegisterCounter("addchannel_did_something_else_than_append_and_the_model_followed")
	cCFListChan     = simrt.RegisterCounter("probe_cflist_channel_list")
	cCFListMask     = simrt.RegisterCounter("probe_cflist_channel_mask")
	cJoinAccept     = simrt.RegisterCounter("probe_join_accept_wire_roundtrip")
	cMACClosure     = simrt.RegisterCounter("probe_mac_command_closure")
	cLinkADR        = simrt.RegisterCounter("probe_linkadr_payload_closure")
	cSixCustom      = simrt.RegisterCounter("probe_more_than_five_custom_channels")
	cLookup         = simrt.RegisterCounter("probe_lookups")
	cBeyondPlan     = simrt.RegisterCounter("probe_device_set_with_channel_beyond_plan")
	cBlockOps       = simrt.RegisterCounter("op_whole_block_enable_disable")
	cStreamClosure  = simrt.RegisterCounter("probe_band_outputs_in_one_command_stream")
	cSharedBand     = simrt.RegisterCounter("op_shared_band_with_concurrent_readers")
	cOffGrid        = simrt.RegisterCounter("fault_custom_channel_off_the_regions_grid")
	cOffGridRefused = simrt.RegisterCounter("probe_off_grid_value_refused_by_mac_layer_not_judged")
	cRX1Freq        = simrt.RegisterCounter("probe_rx1_frequency_through_dlchannelreq")
	cFreshChanged   = simrt.RegisterCounter("probe_fresh_config_differs_after_run")
	cScribble       = simrt.RegisterCounter("fault_caller_overwrites_a_result_it_was_handed")
	cDeep           = simrt.RegisterCounter("op_long_history_of_hundreds_of_operations")
	cCFListNone     = simrt.RegisterCounter("probe_fixed_plan_offers_no_cflist_not_judged")
	cNotJudged      = simrt.RegisterCounter("probe_not_judged_outside_the_statement")
	cBeyond96       = simrt.RegisterCounter("probe_plan_beyond_96_channels_linkadr_not_judged")
)

var names = []band.Name{band.EU868, band.US915, band.AU915, band.AS923, band.AS923_2, band.AS923_3, band.AS923_4,
	band.CN470, band.CN779, band.EU433, band.KR920, band.IN865, band.RU864, band.ISM2400}

var versions = []string{band.LoRaWAN_1_0_0, band.LoRaWAN_1_0_1, band.LoRaWAN_1_0_2, band.LoRaWAN_1_0_3, band.LoRaWAN_1_0_4, band.LoRaWAN_1_1_0, "9.9.9"}

func build(w *sim.World) {
	if simrt.Choose(4) == 0 {
		buildShared(w)
		return
	}
	n := 1 + simrt.Choose(2)
	w.Notef("W-PLAN: %d independent operator tasks", n)
	for i := 0; i < n; i++ {
		name := names[simrt.Choose(len(names))]
		rep := simrt.Choose(2) == 1
		dt := lorawan.DwellTime(simrt.Choose(2))
		nOps := simrt.Choose(1 + 40*sim.Scale)
		deep := false
		if simrt.Choose(48) == 1 {
			// now and then a long-lived band: hundreds of operations, mostly
			// additions, channel tables that outgrow 16-, 64-, 96-, 255- and
			// 256-entry assumptions (observed after one operation in six)
			nOps = 150 + simrt.Choose(650)
			deep = true
			simrt.Count(cDeep)
		}
		sub := simrt.Raw()
		w.Notef("task %d: %s repeater=%v dwell=%d, %d operations", i, name, rep, dt, nOps)
		w.Spawn(fmt.Sprintf("operator%d", i), func() { operator(name, rep, dt, nOps, sub, deep) })
	}
}

// buildShared: ONE band, configured and mutated before the tasks start, is
// then used by 2-4 reader tasks at the same time (a network server's request
// handlers share the band object of their region). The readers only call
// operations that inspect the band - getters, lookups, GetCFList - and every
// result must agree with the model exactly as in the single-owner runs; an
// operation that is not read-only any more (a lazily built cache) shows up
// as a data race or as a wrong value.
func buildShared(w *sim.World) {
	name := names[simrt.Choose(len(names))]
	rep := simrt.Choose(2) == 1
	dt := lorawan.DwellTime(simrt.Choose(2))
	nOps := simrt.Choose(1 + 20*sim.Scale)
	st := newState(name, rep, dt)
	if st == nil {
		return
	}
	st.shared = true
	r := sim.NewRand(simrt.Raw())
	for k := 0; k < nOps; k++ {
		st.op(r)
	}
	n := 2 + simrt.Choose(3)
	w.Notef("W-PLAN (shared band): %s repeater=%v dwell=%d, %d operations before %d concurrent readers", name, rep, dt, nOps, n)
	simrt.Count(cSharedBand)
	for i := 0; i < n; i++ {
		sub := simrt.Raw()
		k := 1 + simrt.Choose(3)
		w.Spawn(fmt.Sprintf("reader%d", i), func() {
			rr := sim.NewRand(sub)
			for j := 0; j < k; j++ {
				if simrt.Dead() {
					return
				}
				sim.Op()
				st.observe(rr)
			}
			simrt.Count(cNontrivial)
		})
	}
}

// gridFreq returns a plausible channel frequency of the region.
func gridFreq(name string, r *sim.Rand) uint32 {
	switch name {
	case "ISM2400":
		return 2400000000 + uint32(r.Intn(400))*200000
	case "EU433":
		return 433175000 + uint32(r.Intn(8))*200000
	case "CN779":
		return 779500000 + uint32(r.Intn(30))*200000
	case "KR920":
		return 920900000 + uint32(r.Intn(14))*200000
	case "IN865":
		return 865062500 + uint32(r.Intn(12))*140000
	case "RU864":
		return 864100000 + uint32(r.Intn(28))*200000
	case "EU868":
		return 863100000 + uint32(r.Intn(34))*200000
	default: // AS923 family
		return 915200000 + uint32(r.Intn(60))*200000
	}
}

type state struct {
	name       string
	b          band.Band
	m          *spec.Plan
	std        []band.Channel // initial snapshot of standard channels
	grid       map[int]bool   // custom channels whose arguments were chosen on the region's grid
	stream     []byte         // the commands of the current closure step, concatenated
	streamCmds []*lorawan.MACCommand
	enabled0   []int          // enabled set of the brand-new band
	stdDown    []band.Channel // initial downlink table
	nDown      int            // length of the downlink table (grows with every accepted AddChannel)
	nTXPower   int            // length of the TX-power offset table
	steps      int
	judgeEnc   bool // whether a refusal by the MAC layer is a violation for the value at hand
	shared     bool // several tasks read this band at the same time
	deep       bool // a long history, mostly additions
}

func operator(name band.Name, rep bool, dt lorawan.DwellTime, nOps int, sub uint64, deep bool) {
	r := sim.NewRand(sub)
	st := newState(name, rep, dt)
	if st == nil {
		return
	}
	st.deep = deep
	st.observe(r)
	st.closure(r)
	for k := 0; k < nOps; k++ {
		if simrt.Dead() {
			return
		}
		sim.Op()
		st.op(r)
		if deep && r.Intn(6) != 0 && k != nOps-1 {
			continue
		}
		st.observe(r)
		if r.Intn(3) == 0 {
			st.closure(r)
		}
	}
	st.closure(r)
	if nOps > 0 {
		simrt.Count(cNontrivial)
	}
	// a brand-new band object of the same configuration still looks like the
	// one this task started from
	if nb, err := band.GetConfig(name, rep, dt); err == nil {
		same := len(nb.GetUplinkChannelIndices()) == len(st.std) && spec.EqualInts(nb.GetEnabledUplinkChannelIndices(), st.enabled0)
		for i := 0; same && i < len(st.std); i++ {
			c, _ := nb.GetUplinkChannel(i)
			if c != st.std[i] {
				same = false
			}
		}
		if !same {
			simrt.Count(cFreshChanged) // band objects sharing state is property C10's subject (and is caught there)
		}
	}
}

// newState configures a band and builds the model of its initial state.
func newState(name band.Name, rep bool, dt lorawan.DwellTime) *state {
	b, err := band.GetConfig(name, rep, dt)
	if err != nil {
		simrt.Report("plan.config", err.Error())
		return nil
	}
	st := &state{name: b.Name(), b: b, grid: map[int]bool{}}
	se, cmin, cmax, kind := spec.PlanTraits(b.Name())
	st.m = &spec.Plan{Name: b.Name(), SupportsExtra: se, CFMinDR: cmin, CFMaxDR: cmax, Kind: kind}
	// the standard channels are the initial state of the model
	enabled := map[int]bool{}
	for _, i := range b.GetEnabledUplinkChannelIndices() {
		enabled[i] = true
		st.enabled0 = append(st.enabled0, i)
	}
	for _, i := range b.GetUplinkChannelIndices() {
		c, err := b.GetUplinkChannel(i)
		if err != nil {
			simrt.Report("plan.initial", err.Error())
			return nil
		}
		st.std = append(st.std, c)
		st.m.Chans = append(st.m.Chans, spec.Chan{Freq: c.Frequency, MinDR: c.MinDR, MaxDR: c.MaxDR, Enabled: enabled[i]})
	}
	// table lengths, probed once on the brand-new band
	for st.nDown < 1000 {
		c, err := b.GetDownlinkChannel(st.nDown)
		if err != nil {
			break
		}
		st.stdDown = append(st.stdDown, c)
		st.nDown++
	}
	for st.nTXPower < 1000 {
		if _, err := b.GetTXPowerOffset(st.nTXPower); err != nil {
			break
		}
		st.nTXPower++
	}
	return st
}

func boundaryInt(r *sim.Rand, n int) int {
	switch r.Intn(12) {
	case 0:
		return -1
	case 1:
		return n
	case 2:
		return n + 1
	case 3:
		return -1 << 31
	case 4:
		return 1<<31 - 1
	case 5:
		return -(r.Intn(100) + 1)
	case 6:
		return n + r.Intn(1000)
	case 7:
		return -1 << 63
	case 8:
		return 1<<63 - 1
	}
	return r.Intn(n + 1)
}

func (st *state) op(r *sim.Rand) {
	n := len(st.m.Chans)
	// operators of the big fixed plans work in whole sub-bands / 16-channel blocks
	if n >= 32 && r.Intn(3) == 0 {
		size := 8
		if r.Intn(2) == 0 {
			size = 16
		}
		base := size * r.Intn(n/size)
		enable := r.Intn(3) == 0
		simrt.Count(cBlockOps)
		for j := base; j < base+size && j < n; j++ {
			var err error
			if enable {
				err = st.b.EnableUplinkChannelIndex(j)
			} else {
				err = st.b.DisableUplinkChannelIndex(j)
			}
			if err != nil {
				if j >= len(st.std) || st.m.Chans[j].Enabled == enable {
					// (a band may refuse to switch a custom slot, or a channel that
					// is in the requested state already; the model follows its answer)
					simrt.Count(cNotJudged)
					continue
				}
				simrt.Report("p2.error-on-valid:block-op", fmt.Sprintf("%s: enable/disable of valid index %d failed: %v", st.name, j, err))
				continue
			}
			st.m.Chans[j].Enabled = enable
		}
		simrt.Trace(evOp, 4, uint64(base))
		return
	}
	switch k := r.Intn(10); {
	case k < 4 || (st.deep && k < 8):
		// AddChannel
		simrt.Count(cAdd)
		var f uint32
		minDR, maxDR := st.m.CFMinDR, st.m.CFMaxDR
		grid := true
		switch r.Intn(9) {
		case 4:
			// a frequency the MAC layer may or may not be able to carry: off the
			// region's grid, around the edges of the 24-bit / 100 Hz and the
			// 2.4 GHz / 200 Hz encodings
			edges := []uint32{1199999900, 1200000000, 1200000100, 1677721500, 1677721600, 2399999800, 2400000000, 2400000200, 100, 4294967200}
			if r.Intn(2) == 0 {
				f = edges[r.Intn(len(edges))]
			} else {
				f = uint32(r.Intn(42949672)) * 100
			}
			grid = false
			simrt.Count(cOffGrid)
		case 0:
			f = uint32(r.U64()) // junk
			minDR, maxDR = r.Intn(40)-20, r.Intn(40)-20
			grid = false
			simrt.Count(cJunkArgs)
		case 1:
			f = 0 // an unused (disabled) channel slot: legitimate
			simrt.Count(cZeroFreq)
		case 2:
			if len(st.std) > 0 {
				f = st.std[r.Intn(len(st.std))].Frequency // same frequency as a standard channel
				minDR, maxDR = 6, 6
				simrt.Count(cDupFreq)
			}
		case 3:
			f = gridFreq(st.name, r)
			minDR, maxDR = r.Intn(8), r.Intn(8)
			if minDR > maxDR {
				minDR, maxDR = maxDR, minDR
			}
		default:
			f = gridFreq(st.name, r)
		}
		var err error
		if sim.Guard("panic", func() { err = st.b.AddChannel(f, minDR, maxDR) }) {
			return
		}
		simrt.Trace(evOp, 1, uint64(f))
		if !st.m.SupportsExtra {
			simrt.Count(cFixedAdd)
		}
		if err != nil {
			// which arguments (and which regions) AddChannel takes is not in the
			// statement: the model follows the band's answer
			return
		}
		// whether a fresh channel starts enabled is read back once and then
		// held: the model does not hard-code it
		en := false
		for _, i := range st.b.GetEnabledUplinkChannelIndices() {
			if i == n {
				en = true
			}
		}
		st.m.Add(f, minDR, maxDR, en)
		// (whether an accepted AddChannel also adds a downlink entry is the
		// band's business: the length of the downlink table is probed again)
		sim.Guard("panic.index", func() {
			for st.nDown < 100000 {
				if _, err := st.b.GetDownlinkChannel(st.nDown); err != nil {
					break
				}
				st.nDown++
			}
		})
		if grid {
			st.grid[n] = true
		}
		st.followAdd(n, f, minDR, maxDR)
		if len(st.m.CustomIdx()) > 5 {
			simrt.Count(cSixCustom)
		}
	case k < 7:
		simrt.Count(cDisable)
		i := boundaryInt(r, n)
		var err error
		if sim.Guard("panic.index", func() { err = st.b.DisableUplinkChannelIndex(i) }) {
			return
		}
		simrt.Trace(evOp, 2, uint64(int64(i)))
		st.judgeIdx("DisableUplinkChannelIndex", i, n, err, false)
		if i >= 0 && i < n && err == nil {
			st.m.Chans[i].Enabled = false
		}
	default:
		simrt.Count(cEnable)
		i := boundaryInt(r, n)
		var err error
		if sim.Guard("panic.index", func() { err = st.b.EnableUplinkChannelIndex(i) }) {
			return
		}
		simrt.Trace(evOp, 3, uint64(int64(i)))
		st.judgeIdx("EnableUplinkChannelIndex", i, n, err, true)
		if i >= 0 && i < n && err == nil {
			st.m.Chans[i].Enabled = true
		}
	}
}

func (st *state) judgeIdx(fn string, i, n int, err error, on bool) {
	valid := i >= 0 && i < n
	if !valid {
		simrt.Count(cBadIdx)
		if err == nil {
			simrt.Report("p2.no-error:"+fn, fmt.Sprintf("%s(%d) on a plan of %d channels returned no error", fn, i, n))
		}
		return
	}
	if err != nil {
		if i >= len(st.std) || st.m.Chans[i].Enabled == on {
			// (a band may refuse to switch a custom slot - say an unused one - or
			// a channel that is in the requested state already: the state the
			// statement talks about is as requested; the model follows its answer)
			simrt.Count(cNotJudged)
			return
		}
		simrt.Report("p2.error-on-valid:"+fn, fmt.Sprintf("%s(%d) on a plan of %d channels returned %v", fn, i, n, err))
	}
}

func cmpInts(what, name string, got, want []int) {
	if got == nil {
		got = []int{}
	}
	// (the statement speaks of index SETS: the order is not judged; an index
	// named twice is not a set)
	g := append([]int(nil), got...)
	for i := 1; i < len(g); i++ {
		for j := i; j > 0 && g[j-1] > g[j]; j-- {
			g[j-1], g[j] = g[j], g[j-1]
		}
	}
	got = g
	if !spec.EqualInts(got, want) {
		simrt.Report("p1.refine:"+what, fmt.Sprintf("%s: %s returns %v, the channel-list model has %v", name, what, got, want))
	}
}

// observe is one observer step: every getter against the model.
func (st *state) observe(r *sim.Rand) {
	simrt.Count(cObserve)
	b, m := st.b, st.m
	n := len(m.Chans)
	sim.Guard("panic", func() {
		// a result is the caller's: now and then the caller sorts it, filters it
		// in place, appends to it - the band's next answers must not change
		// (single-owner runs only: concurrent readers of one band keep their
		// hands off)
		scribble := !st.shared && r.Intn(4) == 0
		get := []struct {
			what string
			f    func() []int
			want []int
		}{
			{"GetUplinkChannelIndices", b.GetUplinkChannelIndices, m.All()},
			{"GetStandardUplinkChannelIndices", b.GetStandardUplinkChannelIndices, m.Standard()},
			{"GetCustomUplinkChannelIndices", b.GetCustomUplinkChannelIndices, m.CustomIdx()},
			{"GetEnabledUplinkChannelIndices", b.GetEnabledUplinkChannelIndices, m.EnabledIdx()},
			{"GetDisabledUplinkChannelIndices", b.GetDisabledUplinkChannelIndices, m.DisabledIdx()},
		}
		for _, g := range get {
			res := g.f()
			cmpInts(g.what, st.name, res, g.want)
			if scribble {
				simrt.Count(cScribble)
				ownerWriteInts(res, r)
			}
		}
		if scribble {
			for _, g := range get {
				cmpInts(g.what, st.name, g.f(), g.want)
			}
		}
	})
	simrt.Trace(evObs, uint64(n), uint64(len(m.EnabledIdx())))
	// channels, incl. standard channels never altered
	for i := 0; i < n; i++ {
		var c band.Channel
		var err error
		if sim.Guard("panic.index", func() { c, err = b.GetUplinkChannel(i) }) {
			continue
		}
		mc := m.Chans[i]
		if err != nil || c.Frequency != mc.Freq || c.MinDR != mc.MinDR || c.MaxDR != mc.MaxDR {
			simrt.Report("p1.refine:GetUplinkChannel", fmt.Sprintf("%s: GetUplinkChannel(%d) = %+v (%v), model has %+v", st.name, i, c, err, mc))
		}
		if i < len(st.std) && (c.Frequency != st.std[i].Frequency || c.MinDR != st.std[i].MinDR || c.MaxDR != st.std[i].MaxDR) {
			simrt.Report("p1.standard-altered", fmt.Sprintf("%s: standard channel %d changed from %+v to %+v", st.name, i, st.std[i], c))
		}
	}
	// out-of-range / negative indices on every accessor
	for k := 0; k < 3; k++ {
		i := boundaryInt(r, n)
		valid := i >= 0 && i < n
		var err error
		if !sim.Guard("panic.index", func() { _, err = b.GetUplinkChannel(i) }) {
			if valid != (err == nil) {
				simrt.Report("p2.index:GetUplinkChannel", fmt.Sprintf("%s: GetUplinkChannel(%d) on %d channels: err=%v", st.name, i, n, err))
			}
		}
		if !valid {
			simrt.Count(cBadIdx)
			sim.Guard("panic.index", func() {
				if _, err := b.GetDownlinkChannel(i); err == nil {
					// the downlink table has its own length (it grows with AddChannel)
					if i < 0 || i >= st.nDown {
						simrt.Report("p2.no-error:GetDownlinkChannel", fmt.Sprintf("%s: GetDownlinkChannel(%d) returned no error on a downlink table of %d channels", st.name, i, st.nDown))
					}
				}
			})
			sim.Guard("panic.index", func() {
				if _, err := b.GetTXPowerOffset(i); err == nil && (i < 0 || i >= st.nTXPower) {
					simrt.Report("p2.no-error:GetTXPowerOffset", fmt.Sprintf("%s: GetTXPowerOffset(%d) returned no error", st.name, i))
				}
			})
			sim.Guard("panic.index", func() {
				if _, err := b.GetRX1DataRateIndex(0, i); err == nil && (i < 0 || i > 1000) {
					simrt.Report("p2.no-error:GetRX1DataRateIndex", fmt.Sprintf("%s: GetRX1DataRateIndex(0,%d) returned no error", st.name, i))
				}
			})
			sim.Guard("panic.index", func() { b.GetDataRate(i) })
			sim.Guard("panic.index", func() { b.GetRX1ChannelIndexForUplinkChannelIndex(i) })
			sim.Guard("panic.index", func() { b.GetMaxPayloadSizeForDataRateIndex("", "", i) })
		}
	}
	// the first index beyond each table is an error, the last one inside is not
	sim.Guard("panic.index", func() {
		if _, err := b.GetDownlinkChannel(st.nDown); err == nil {
			simrt.Report("p2.no-error:GetDownlinkChannel", fmt.Sprintf("%s: GetDownlinkChannel(%d) returned no error on a downlink table of %d channels", st.name, st.nDown, st.nDown))
		}
		if st.nDown > 0 {
			if _, err := b.GetDownlinkChannel(st.nDown - 1); err != nil {
				simrt.Report("p2.error-on-valid:GetDownlinkChannel", fmt.Sprintf("%s: GetDownlinkChannel(%d) on a downlink table of %d channels: %v", st.name, st.nDown-1, st.nDown, err))
			}
		}
		if _, err := b.GetTXPowerOffset(st.nTXPower); err == nil {
			simrt.Report("p2.no-error:GetTXPowerOffset", fmt.Sprintf("%s: GetTXPowerOffset(%d) returned no error on a table of %d offsets", st.name, st.nTXPower, st.nTXPower))
		}
	})
	// standard downlink channels are never altered
	for i, want := range st.stdDown {
		var c band.Channel
		var err error
		if sim.Guard("panic.index", func() { c, err = b.GetDownlinkChannel(i) }) {
			continue
		}
		if err != nil || c.Frequency != want.Frequency || c.MinDR != want.MinDR || c.MaxDR != want.MaxDR {
			simrt.Report("p1.standard-altered:downlink", fmt.Sprintf("%s: standard downlink channel %d changed from %+v to %+v (%v)", st.name, i, want, c, err))
		}
	}
	// lookups: a successful lookup returns an index whose channel matches
	if n > 0 {
		i := r.Intn(n)
		mc := m.Chans[i]
		simrt.Count(cLookup)
		sim.Guard("panic", func() {
			for _, def := range []bool{true, false} {
				if idx, err := b.GetUplinkChannelIndex(mc.Freq, def); err == nil {
					if idx < 0 || idx >= n || m.Chans[idx].Freq != mc.Freq || m.Chans[idx].Custom == def {
						simrt.Report("p1.lookup:GetUplinkChannelIndex", fmt.Sprintf("%s: GetUplinkChannelIndex(%d,%v) = %d, model channel there is %+v", st.name, mc.Freq, def, idx, chanAt(m, idx)))
					}
				}
			}
			// any other frequency: not found unless a channel has it, and then
			// the index returned is a channel with that frequency. Candidates sit
			// where a calculated or scanned lookup would go wrong: tiny values,
			// neighbours of a channel on the plan's raster, one and two raster
			// steps before the first and past the last channel.
			spacing := uint32(200000)
			if n >= 2 && m.Chans[1].Freq > m.Chans[0].Freq {
				spacing = m.Chans[1].Freq - m.Chans[0].Freq
			}
			first, last := m.Chans[0].Freq, m.Chans[0].Freq
			lastStd := m.Chans[0].Freq
			for _, c := range m.Chans {
				if c.Freq < first {
					first = c.Freq
				}
				if c.Freq > last {
					last = c.Freq
				}
				if !c.Custom {
					lastStd = c.Freq
				}
			}
			cands := []uint32{uint32(1 + r.Intn(99)), mc.Freq + 100, mc.Freq - 100, mc.Freq + spacing, mc.Freq - spacing,
				last + spacing, last + 2*spacing, first - spacing, first - 2*spacing, lastStd + spacing, m.Chans[n-1].Freq + spacing,
				mc.Freq + spacing/2, 0}
			other := cands[r.Intn(len(cands))]
			has := func(f uint32, custom, any bool) bool {
				for _, c := range m.Chans {
					if c.Freq == f && (any || c.Custom == custom) {
						return true
					}
				}
				return false
			}
			for _, def := range []bool{true, false} {
				if idx, err := b.GetUplinkChannelIndex(other, def); err == nil {
					if !has(other, !def, false) {
						simrt.Report("p1.lookup:GetUplinkChannelIndex", fmt.Sprintf("%s: GetUplinkChannelIndex(%d,%v) = %d although no such channel has that frequency", st.name, other, def, idx))
					} else if idx < 0 || idx >= n || m.Chans[idx].Freq != other || m.Chans[idx].Custom == def {
						simrt.Report("p1.lookup:GetUplinkChannelIndex", fmt.Sprintf("%s: GetUplinkChannelIndex(%d,%v) = %d, model channel there is %+v", st.name, other, def, idx, chanAt(m, idx)))
					}
				}
			}
			odr := r.Intn(8)
			if idx, err := b.GetUplinkChannelIndexForFrequencyDR(other, odr); err == nil {
				if !has(other, false, true) {
					simrt.Report("p1.lookup:GetUplinkChannelIndexForFrequencyDR", fmt.Sprintf("%s: GetUplinkChannelIndexForFrequencyDR(%d,%d) = %d although no channel has that frequency", st.name, other, odr, idx))
				} else if idx < 0 || idx >= n || m.Chans[idx].Freq != other || odr < m.Chans[idx].MinDR || odr > m.Chans[idx].MaxDR {
					simrt.Report("p1.lookup:GetUplinkChannelIndexForFrequencyDR", fmt.Sprintf("%s: GetUplinkChannelIndexForFrequencyDR(%d,%d) = %d, model channel there is %+v", st.name, other, odr, idx, chanAt(m, idx)))
				}
			}
			dr := []int{mc.MinDR - 1, mc.MinDR, mc.MaxDR, mc.MaxDR + 1}[r.Intn(4)]
			if idx, err := b.GetUplinkChannelIndexForFrequencyDR(mc.Freq, dr); err == nil {
				if idx < 0 || idx >= n || m.Chans[idx].Freq != mc.Freq || dr < m.Chans[idx].MinDR || dr > m.Chans[idx].MaxDR {
					simrt.Report("p1.lookup:GetUplinkChannelIndexForFrequencyDR", fmt.Sprintf("%s: GetUplinkChannelIndexForFrequencyDR(%d,%d) = %d, model channel there is %+v", st.name, mc.Freq, dr, idx, chanAt(m, idx)))
				}
			} else if !mc.Custom && dr >= mc.MinDR && dr <= mc.MaxDR {
				// a standard channel must be found for a data-rate inside its own range
				simrt.Count(cNotJudged) // (soundness of a look-up is in the statement, completeness is not)
			}
		})
	}
	// GetEnabledUplinkDataRates is not mentioned by the statement: exercised
	// (it must not crash), not judged. A data-rate range wider than 64 (caller
	// junk) makes it loop over the whole range and is not called then.
	wide := false
	for _, c := range m.Chans {
		if c.MaxDR-c.MinDR > 64 {
			wide = true
		}
	}
	if !wide {
		sim.Guard("panic", func() { b.GetEnabledUplinkDataRates() })
	}
	st.cflist()
}

// followAdd: what an accepted AddChannel does to the plan beyond "there is
// now a custom channel with these parameters" is not in the statement (a band
// may append a channel, recognise one it already has, fill an unused slot).
// The model appended; if the band did something else that leaves the standard
// channels and the other custom channels as they were, the model follows the
// band. Anything else stays different from the model and is reported by the
// comparisons that follow every operation.
func (st *state) followAdd(nBefore int, f uint32, minDR, maxDR int) {
	var obs []spec.Chan
	ok := true
	if sim.Guard("panic", func() {
		custom, enabled := map[int]bool{}, map[int]bool{}
		for _, i := range st.b.GetCustomUplinkChannelIndices() {
			custom[i] = true
		}
		for _, i := range st.b.GetEnabledUplinkChannelIndices() {
			enabled[i] = true
		}
		all := st.b.GetUplinkChannelIndices()
		for k, i := range all {
			if i != k {
				ok = false
				return
			}
			c, err := st.b.GetUplinkChannel(i)
			if err != nil {
				ok = false
				return
			}
			obs = append(obs, spec.Chan{Freq: c.Frequency, MinDR: c.MinDR, MaxDR: c.MaxDR, Enabled: enabled[i], Custom: custom[i]})
		}
	}) || !ok {
		return
	}
	m := st.m.Chans // the model after its own append
	same := len(obs) == len(m)
	for i := 0; same && i < len(m); i++ {
		same = obs[i] == m[i]
	}
	if same {
		return
	}
	if len(obs) < nBefore || len(obs) > nBefore+1 {
		return
	}
	isNew := func(c spec.Chan) bool { return c.Custom && c.Freq == f && c.MinDR == minDR && c.MaxDR == maxDR }
	found := false
	for i, c := range obs {
		if isNew(c) {
			found = true
		}
		if i >= nBefore {
			if !c.Custom {
				return
			}
			continue
		}
		old := m[i]
		switch {
		case !old.Custom:
			if c != old {
				return // a standard channel was altered
			}
		case old.Freq == 0 && isNew(c):
			// an unused slot was filled
		case isNew(c) && isNew(old):
			// the channel that was "added again" (it may have been enabled again)
		default:
			if c != old {
				return
			}
		}
	}
	if !found {
		return
	}
	simrt.Count(cAddOther)
	grid := st.grid[nBefore]
	delete(st.grid, nBefore)
	st.m.Chans = obs
	for i, c := range obs {
		if isNew(c) && grid {
			st.grid[i] = true
		}
	}
}

// ownerWriteInts is what every caller may do with a slice it was handed:
// append to it. The append lands in the slice's spare capacity if it has any
// - memory behind the end of what the caller was given, which must not be
// anybody else's. The elements the caller WAS given are left alone (whether
// results are the caller's to edit is not in the statement: a library may
// hand out windows on read-only tables). The name marks a write to
// caller-owned memory (see the driver's race attribution).
func ownerWriteInts(s []int, r *sim.Rand) {
	n := len(s)
	if cap(s) == n {
		return
	}
	s = s[:cap(s)]
	for i := n; i < len(s); i++ {
		s[i] = -7 - r.Intn(4)
	}
}

func chanAt(m *spec.Plan, i int) interface{} {
	if i < 0 || i >= len(m.Chans) {
		return "none"
	}
	return m.Chans[i]
}

// cflist is P3.
func (st *state) cflist() {
	m := st.m
	// the two readings of "its custom channels (first five, in order)": all
	// custom channels, or (the library's documented reading) those with the
	// data-rate range a CFList channel implicitly has
	var allCustom []uint32
	for _, c := range m.Chans {
		if c.Custom && len(allCustom) < 5 {
			allCustom = append(allCustom, c.Freq)
		}
	}
	if !st.shared {
		st.steps++
	}
	var pending *lorawan.CFList
	defer func() {
		if pending != nil {
			ownerWriteCFList(pending)
		}
	}()
	for vi, v := range versions {
		if pending != nil {
			ownerWriteCFList(pending)
			pending = nil
		}
		var cf *lorawan.CFList
		if sim.Guard("panic", func() { cf = st.b.GetCFList(v) }) {
			continue
		}
		if cf != nil && !st.shared && (st.steps+vi)%5 == 0 {
			// the caller edits the CFList it was handed (for one device) once
			// this iteration has judged it: the band's later offers must not change
			simrt.Count(cScribble)
			pending = cf
		}
		old := v == band.LoRaWAN_1_0_0 || v == band.LoRaWAN_1_0_1 || v == band.LoRaWAN_1_0_2
		known := old || v == band.LoRaWAN_1_0_3 || v == band.LoRaWAN_1_0_4 || v == band.LoRaWAN_1_1_0
		if !known {
			continue // what an unknown version string gets is not defined (it must not crash)
		}
		if m.SupportsExtra {
			want := m.CFListChannels()
			if cf == nil {
				if len(want) > 0 && want[0] != 0 && len(allCustom) > 0 && allCustom[0] != 0 {
					simrt.Report("p3.cflist:"+st.name, fmt.Sprintf("GetCFList(%s) = nil although custom channels %v exist", v, want))
				}
				continue
			}
			simrt.Count(cCFListChan)
			pl, ok := cf.Payload.(*lorawan.CFListChannelPayload)
			if !ok || cf.CFListType != lorawan.CFListChannel {
				simrt.Report("p3.cflist:"+st.name, fmt.Sprintf("GetCFList(%s) of a dynamic plan is not a channel list: %s", v, sim.DeepSig(cf)))
				continue
			}
			var exp1, exp2 [5]uint32
			copy(exp1[:], want)
			copy(exp2[:], allCustom)
			// (an entry of 0 means "unused": a band may also leave its
			// frequency-0 placeholder slots out of the list)
			nz := func(a []uint32) (out [5]uint32) {
				k := 0
				for _, f := range a {
					if f != 0 && k < 5 {
						out[k] = f
						k++
					}
				}
				return
			}
			var allWant, allCust []uint32
			for _, c := range m.Chans {
				if c.Custom {
					allCust = append(allCust, c.Freq)
					if c.MinDR == m.CFMinDR && c.MaxDR == m.CFMaxDR {
						allWant = append(allWant, c.Freq)
					}
				}
			}
			if pl.Channels != exp1 && pl.Channels != exp2 && pl.Channels != nz(allWant) && pl.Channels != nz(allCust) {
				simrt.Report("p3.cflist:"+st.name, fmt.Sprintf("GetCFList(%s) = %v; the first five custom channels are %v (with the CFList data-rate range %d..%d: %v)", v, pl.Channels, allCustom, m.CFMinDR, m.CFMaxDR, want))
			}
			continue
		}
		if !known {
			continue // what an unknown version string gets is not defined
		}
		// (to which versions a fixed plan offers its masks is not in the
		// statement; what it offers must be the exact masks)
		if cf == nil {
			simrt.Count(cCFListNone)
			continue
		}
		simrt.Count(cCFListMask)
		pl, ok := cf.Payload.(*lorawan.CFListChannelMaskPayload)
		if !ok || cf.CFListType != lorawan.CFListChannelMask {
			simrt.Report("p3.cflist:"+st.name, fmt.Sprintf("GetCFList(%s) of a fixed plan is not a channel mask: %s", v, sim.DeepSig(cf)))
			continue
		}
		// "the exact enabled-channel masks" (trailing empty masks are padding)
		want := &lorawan.CFList{CFListType: lorawan.CFListChannelMask, Payload: &lorawan.CFListChannelMaskPayload{}}
		for _, mk := range m.CFListMasks() {
			want.Payload.(*lorawan.CFListChannelMaskPayload).ChannelMasks = append(want.Payload.(*lorawan.CFListChannelMaskPayload).ChannelMasks, lorawan.ChMask(mk))
		}
		if !sameCFList(cf, want) {
			simrt.Report("p3.cflist:"+st.name, fmt.Sprintf("GetCFList(%s) masks %v, model's enabled flags give %v", v, pl.ChannelMasks, m.CFListMasks()))
		}
	}
}

// ownerWriteCFList: appending to the mask list of a CFList one was handed
// (spare capacity only, see ownerWriteInts).
func ownerWriteCFList(cf *lorawan.CFList) {
	if pl, ok := cf.Payload.(*lorawan.CFListChannelMaskPayload); ok && pl != nil && cap(pl.ChannelMasks) > len(pl.ChannelMasks) {
		spare := pl.ChannelMasks[len(pl.ChannelMasks):cap(pl.ChannelMasks)]
		for i := range spare {
			spare[i] = lorawan.ChMask{true, false, true}
		}
	}
}

// ----------------------------------------------------------------- P4

// encodes reports an un-encodable band output.
func (st *state) unencodable(structure string, what string, err error) {
	simrt.Report("encodable:"+st.name+":"+structure, fmt.Sprintf("%s: %s cannot be encoded by the MAC layer: %v", st.name, what, err))
}

func cmdRoundTrip(up bool, mc *lorawan.MACCommand) (string, error) {
	b, err := mc.MarshalBinary()
	if err != nil {
		return "", err
	}
	mt := lorawan.UnconfirmedDataDown
	if up {
		mt = lorawan.UnconfirmedDataUp
	}
	phy := lorawan.PHYPayload{MHDR: lorawan.MHDR{MType: mt}, MACPayload: &lorawan.MACPayload{
		FHDR: lorawan.FHDR{FOpts: []lorawan.Payload{&lorawan.DataPayload{Bytes: b}}}}}
	if err := phy.DecodeFOptsToMACCommands(); err != nil {
		return "", err
	}
	fo := phy.MACPayload.(*lorawan.MACPayload).FHDR.FOpts
	if len(fo) != 1 {
		return fmt.Sprintf("decoded into %d commands", len(fo)), nil
	}
	if got, want := sim.DeepSig(fo[0]), sim.DeepSig(mc); got != want {
		return fmt.Sprintf("decoded %s, encoded %s", got, want), nil
	}
	return "", nil
}

func (st *state) cmd(structure, what string, mc *lorawan.MACCommand) {
	simrt.Count(cMACClosure)
	if b, err := mc.MarshalBinary(); err == nil && len(st.stream)+len(b) <= 200 {
		st.stream = append(st.stream, b...)
		st.streamCmds = append(st.streamCmds, mc)
	}
	var diff string
	var err error
	if sim.Guard("panic", func() { diff, err = cmdRoundTrip(false, mc) }) {
		return
	}
	if err != nil {
		if st.judgeEnc {
			st.unencodable(structure, what, err)
		} else {
			simrt.Count(cOffGridRefused)
		}
		return
	}
	if diff != "" {
		simrt.Report("closure:"+st.name+":"+structure, fmt.Sprintf("%s: %s does not survive the MAC layer: %s", st.name, what, diff))
	}
}

// closure is P4: every CFList, default RX2 frequency / data-rate, channel
// frequency and DR range, ping-slot frequency and LinkADRReq the band hands
// out goes through the MAC layer and the wire and must come back unchanged.
func (st *state) closure(r *sim.Rand) {
	st.stream, st.streamCmds = nil, nil
	st.judgeEnc = true
	defer st.streamClosure()
	b := st.b
	var key spec.Key
	r.Fill(key[:])
	// join-accept with the band's CFList
	for _, v := range []string{band.LoRaWAN_1_0_2, band.LoRaWAN_1_0_4, band.LoRaWAN_1_1_0} {
		var cf *lorawan.CFList
		if sim.Guard("panic", func() { cf = b.GetCFList(v) }) || cf == nil {
			continue
		}
		// whether the MAC layer CAN carry a value is only judged for what the
		// band itself defines and for custom channels on the region's grid; if
		// it does carry an off-grid value, that value must come back unchanged
		judgeEnc := true
		// only custom channels the operator chose on the region's grid count as
		// "produced by the band" (junk arguments are the caller's problem)
		if pl, ok := cf.Payload.(*lorawan.CFListChannelPayload); ok {
			onGrid := true
			k := 0
			for i, c := range st.m.Chans {
				if c.Custom && c.MinDR == st.m.CFMinDR && c.MaxDR == st.m.CFMaxDR && k < 5 {
					if !st.grid[i] {
						onGrid = false
					}
					k++
				}
			}
			_ = pl
			judgeEnc = onGrid
		}
		simrt.Count(cJoinAccept)
		d := b.GetDefaults()
		ja := &lorawan.JoinAcceptPayload{JoinNonce: lorawan.JoinNonce(r.Intn(1 << 24)), RXDelay: 1, CFList: cf}
		if d.RX2DataRate >= 0 && d.RX2DataRate <= 15 {
			ja.DLSettings.RX2DataRate = uint8(d.RX2DataRate)
		} else {
			simrt.Report("encodable:"+st.name+":DLSettings.RX2DataRate", fmt.Sprintf("default RX2 data-rate %d does not fit DLSettings", d.RX2DataRate))
		}
		r.Fill(ja.HomeNetID[:])
		r.Fill(ja.DevAddr[:])
		phy := lorawan.PHYPayload{MHDR: lorawan.MHDR{MType: lorawan.JoinAccept}, MACPayload: ja}
		var eui lorawan.EUI64
		var err error
		var wire []byte
		if sim.Guard("panic", func() {
			if err = phy.SetDownlinkJoinMIC(lorawan.JoinRequestType, eui, 7, lorawan.AES128Key(key)); err != nil {
				return
			}
			if err = phy.EncryptJoinAcceptPayload(lorawan.AES128Key(key)); err != nil {
				return
			}
			wire, err = phy.MarshalBinary()
		}) {
			continue
		}
		if err != nil {
			if judgeEnc {
				st.unencodable("CFList", fmt.Sprintf("the CFList offered for %s (%s) in a join-accept", v, sim.DeepSig(cf)), err)
			} else {
				simrt.Count(cOffGridRefused)
			}
			continue
		}
		var rx lorawan.PHYPayload
		if err := rx.UnmarshalBinary(wire); err != nil {
			simrt.Report("closure:"+st.name+":join-accept", fmt.Sprintf("join-accept %x does not decode: %v", wire, err))
			continue
		}
		if err := rx.DecryptJoinAcceptPayload(lorawan.AES128Key(key)); err != nil {
			simrt.Report("closure:"+st.name+":join-accept", fmt.Sprintf("join-accept %x does not decrypt: %v", wire, err))
			continue
		}
		if ok, err := rx.ValidateDownlinkJoinMIC(lorawan.JoinRequestType, eui, 7, lorawan.AES128Key(key)); !ok || err != nil {
			simrt.Count(cNotJudged) // (the join-accept MIC is C04's subject)
		}
		got := rx.MACPayload.(*lorawan.JoinAcceptPayload)
		if !sameCFList(got.CFList, cf) {
			simrt.Report("closure:"+st.name+":CFList", fmt.Sprintf("CFList %s comes back from the wire as %s", sim.DeepSig(cf), sim.DeepSig(got.CFList)))
		}
	}
	// defaults
	d := b.GetDefaults()
	if d.RX2DataRate >= 0 && d.RX2DataRate <= 15 {
		st.cmd("RXParamSetupReq", fmt.Sprintf("default RX2 frequency %d / data-rate %d", d.RX2Frequency, d.RX2DataRate),
			&lorawan.MACCommand{CID: lorawan.RXParamSetupReq, Payload: &lorawan.RXParamSetupReqPayload{Frequency: d.RX2Frequency, DLSettings: lorawan.DLSettings{RX2DataRate: uint8(d.RX2DataRate)}}})
	}
	// channels: standard ones and custom ones chosen on the grid
	n := len(st.m.Chans)
	if n > 0 {
		i := r.Intn(n)
		{
			st.judgeEnc = !st.m.Chans[i].Custom || st.grid[i]
			c, err := b.GetUplinkChannel(i)
			if err == nil && i < 256 && c.MinDR >= 0 && c.MaxDR <= 15 && c.MinDR <= 15 && c.MaxDR >= 0 {
				st.cmd("NewChannelReq", fmt.Sprintf("channel %d: %d Hz DR %d..%d", i, c.Frequency, c.MinDR, c.MaxDR),
					&lorawan.MACCommand{CID: lorawan.NewChannelReq, Payload: &lorawan.NewChannelReqPayload{ChIndex: uint8(i), Freq: c.Frequency, MinDR: uint8(c.MinDR), MaxDR: uint8(c.MaxDR)}})
			}
			// the RX1 frequency the band derives for an uplink on this channel is
			// what a DLChannelReq carries
			if err == nil && i < 256 {
				var rf uint32
				var rerr error
				if !sim.Guard("panic", func() { rf, rerr = b.GetRX1FrequencyForUplinkFrequency(c.Frequency) }) && rerr == nil {
					simrt.Count(cRX1Freq)
					st.cmd("DLChannelReq", fmt.Sprintf("RX1 frequency %d Hz for an uplink on channel %d (%d Hz)", rf, i, c.Frequency),
						&lorawan.MACCommand{CID: lorawan.DLChannelReq, Payload: &lorawan.DLChannelReqPayload{ChIndex: uint8(i), Freq: rf}})
				}
			}
			if dc, err := b.GetDownlinkChannel(i); err == nil && i < 256 {
				st.cmd("DLChannelReq", fmt.Sprintf("downlink channel %d: %d Hz", i, dc.Frequency),
					&lorawan.MACCommand{CID: lorawan.DLChannelReq, Payload: &lorawan.DLChannelReqPayload{ChIndex: uint8(i), Freq: dc.Frequency}})
			}
		}
	}
	st.judgeEnc = true
	// ping-slot frequency
	var addr lorawan.DevAddr
	r.Fill(addr[:])
	var pf uint32
	var perr error
	if !sim.Guard("panic", func() { pf, perr = b.GetPingSlotFrequency(addr, time.Duration(r.Intn(1<<30))*time.Second) }) && perr == nil {
		// (the data-rate of the ping slot: one the band itself defines - its RX2
		// default or an index of its data-rate table - is "produced by the
		// band"; any other of the field's 16 values is the harness's invention:
		// a refusal is not judged, what is accepted must still come back)
		pingDR := uint8(r.Intn(16))
		own := false
		if d.RX2DataRate >= 0 && d.RX2DataRate <= 15 && r.Intn(2) == 0 {
			pingDR, own = uint8(d.RX2DataRate), true
		} else {
			sim.Guard("panic", func() {
				if _, err := b.GetDataRate(int(pingDR)); err == nil {
					own = true
				}
			})
		}
		st.judgeEnc = own
		st.cmd("PingSlotChannelReq", fmt.Sprintf("ping-slot frequency %d, data-rate %d", pf, pingDR),
			&lorawan.MACCommand{CID: lorawan.PingSlotChannelReq, Payload: &lorawan.PingSlotChannelReqPayload{Frequency: pf, DR: pingDR}})
		st.judgeEnc = true
		st.cmd("BeaconFreqReq", fmt.Sprintf("ping-slot/beacon frequency %d", pf),
			&lorawan.MACCommand{CID: lorawan.BeaconFreqReq, Payload: &lorawan.BeaconFreqReqPayload{Frequency: pf}})
	}
	// LinkADRReq payloads for some device set
	var dev []int
	for i := 0; i < n; i++ {
		if r.Intn(2) == 0 {
			dev = append(dev, i)
		}
	}
	if r.Intn(3) == 0 {
		// a device may report channels the network (no longer) has
		dev = append(dev, n+r.Intn(16))
		simrt.Count(cBeyondPlan)
	}
	// (LinkADRReq addresses 16-channel blocks 0..5 with ChMaskCntl, 6 and 7
	// have other meanings: a plan or device set beyond 96 channels - only the
	// long histories get there - has no defined LinkADRReq and is not judged)
	addressable := n <= 96
	for _, c := range dev {
		if c >= 96 {
			addressable = false
		}
	}
	var pls []lorawan.LinkADRReqPayload
	if !addressable {
		simrt.Count(cBeyond96)
	} else if !sim.Guard("panic", func() { pls = b.GetLinkADRReqPayloadsForEnabledUplinkChannelIndices(dev) }) {
		for k := range pls {
			simrt.Count(cLinkADR)
			pl := pls[k]
			st.cmd("LinkADRReq", fmt.Sprintf("LinkADRReq payload %+v for device set %v", pl, dev), &lorawan.MACCommand{CID: lorawan.LinkADRReq, Payload: &pl})
		}
	}
}

// streamClosure: what the band handed out in this step, as ONE port-0 command
// stream (the way a network server sends it), decodes to the same commands.
func (st *state) streamClosure() {
	if len(st.streamCmds) < 2 {
		return
	}
	simrt.Count(cStreamClosure)
	port := uint8(0)
	phy := lorawan.PHYPayload{MHDR: lorawan.MHDR{MType: lorawan.UnconfirmedDataDown}, MACPayload: &lorawan.MACPayload{
		FPort: &port, FRMPayload: []lorawan.Payload{&lorawan.DataPayload{Bytes: append([]byte(nil), st.stream...)}}}}
	var err error
	if sim.Guard("panic", func() { err = phy.DecodeFRMPayloadToMACCommands() }) {
		return
	}
	if err != nil {
		simrt.Report("closure:"+st.name+":stream", fmt.Sprintf("%s: command stream %x of band outputs does not decode: %v", st.name, st.stream, err))
		return
	}
	got := phy.MACPayload.(*lorawan.MACPayload).FRMPayload
	if len(got) != len(st.streamCmds) {
		simrt.Report("closure:"+st.name+":stream", fmt.Sprintf("%s: command stream %x of %d band outputs decodes into %d commands", st.name, st.stream, len(st.streamCmds), len(got)))
		return
	}
	for i := range got {
		if g, w := sim.DeepSig(got[i]), sim.DeepSig(st.streamCmds[i]); g != w {
			simrt.Report("closure:"+st.name+":stream", fmt.Sprintf("%s: command %d of stream %x decodes to %s, encoded %s", st.name, i, st.stream, g, w))
			return
		}
	}
}

func sameCFList(a, b *lorawan.CFList) bool {
	if a == nil || b == nil {
		return a == b
	}
	if a.CFListType != b.CFListType {
		return false
	}
	// a channel-mask CFList is padded with empty masks on the wire; trailing
	// all-false masks are not a difference
	if am, ok := a.Payload.(*lorawan.CFListChannelMaskPayload); ok {
		bm, ok := b.Payload.(*lorawan.CFListChannelMaskPayload)
		if !ok {
			return false
		}
		trim := func(m []lorawan.ChMask) []lorawan.ChMask {
			for len(m) > 0 && m[len(m)-1] == (lorawan.ChMask{}) {
				m = m[:len(m)-1]
			}
			return m
		}
		x, y := trim(am.ChannelMasks), trim(bm.ChannelMasks)
		if len(x) != len(y) {
			return false
		}
		for i := range x {
			if x[i] != y[i] {
				return false
			}
		}
		return true
	}
	return sim.DeepSig(a) == sim.DeepSig(b)
}
