// Package worlds holds the registry of simulated worlds.
package worlds

import "verif/sim"

// Registry maps a world name to its constructor.
var Registry = map[string]sim.Build{}

func Register(name string, b sim.Build) { Registry[name] = b }
