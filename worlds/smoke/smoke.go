// Package smoke is a minimal world used by the machinery self-tests:
// one operator registering proprietary commands, two decoders.
package smoke

import (
	"github.com/brocaar/lorawan"

	"verif/sim"
	"verif/simrt"
	"verif/worlds"
)

func init() { worlds.Register("smoke", build) }

var evDecode = sim.RegisterEv(100, "decode")
var evReg = sim.RegisterEv(101, "register")

func build(w *sim.World) {
	nreg := 1 + simrt.Choose(3)
	w.Spawn("operator", func() {
		for i := 0; i < nreg; i++ {
			cid := lorawan.CID(0x80 + simrt.Choose(4))
			size := 1 + simrt.Choose(3)
			lorawan.RegisterProprietaryMACCommand(true, cid, size)
			simrt.Trace(evReg, uint64(cid), uint64(size))
		}
	})
	for t := 0; t < 2; t++ {
		w.Spawn("codec", func() {
			for i := 0; i < 5; i++ {
				b := []byte{0x02, 0x03, 0x07, 0x06, 0x10, 0x20}
				p := []lorawan.Payload{&lorawan.DataPayload{Bytes: b}}
				phy := lorawan.PHYPayload{MHDR: lorawan.MHDR{MType: lorawan.UnconfirmedDataUp}, MACPayload: &lorawan.MACPayload{FHDR: lorawan.FHDR{FOpts: p}}}
				if err := phy.DecodeFOptsToMACCommands(); err != nil {
					simrt.Report("smoke:decode", err.Error())
				}
				simrt.Trace(evDecode, uint64(len(phy.MACPayload.(*lorawan.MACPayload).FHDR.FOpts)), 0)
			}
		})
	}
}
