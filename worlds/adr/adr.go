// Package adr is world W-ADR (property C14): a network-server task owns a
// band (any region), mutates it with a history of AddChannel / Disable /
// Enable, plans LinkADRReq blocks for a device from its BELIEF about the
// device's channels and ships them as real MAC commands in real downlink
// frames over a lossy radio; a device task applies them with an independent
// model of LinkADRReq processing and answers. Losses, resets, re-joins and
// mis-provisioning make belief and reality diverge.
//
// Oracles A1-A4 of DESIGN.md §5 C14 at every planning step, for the belief,
// the device's actual set, and (for <= 16-channel plans) a window of 2^10
// consecutive device masks.
package adr

import (
	"fmt"

	"github.com/brocaar/lorawan"
	"github.com/brocaar/lorawan/band"

	"verif/sim"
	"verif/simrt"
	"verif/spec"
	"verif/worlds"
	"verif/worlds/pipe"
)

func init() { worlds.Register("adr", build) }

var (
	evOp   = sim.RegisterEv(700, "band-op")
	evPlan = sim.RegisterEv(701, "plan")
	evDev  = sim.RegisterEv(702, "device")

	cNontrivial   = simrt.RegisterCounter("nontrivial")
	cPlans        = simrt.RegisterCounter("op_planning_steps")
	cSets         = simrt.RegisterCounter("op_device_sets_judged")
	cSweeps       = simrt.RegisterCounter("op_mask_window_sweeps")
	cBandOps      = simrt.RegisterCounter("op_band_mutations")
	cWire         = simrt.RegisterCounter("probe_blocks_through_wire")
	cApplied      = simrt.RegisterCounter("probe_blocks_applied_by_device")
	cEmptyPlan    = simrt.RegisterCounter("probe_nothing_to_do")
	cPlanB        = simrt.RegisterCounter("probe_chmaskcntl7_plan_chosen")
	cCustomOn     = simrt.RegisterCounter("probe_custom_channel_active_on_device")
	cCustomOff    = simrt.RegisterCounter("probe_custom_channel_unknown_to_device")
	cBeyond       = simrt.RegisterCounter("probe_device_channel_beyond_plan")
	cConverged    = simrt.RegisterCounter("probe_converged_after_faults")
	cNotJudged    = simrt.RegisterCounter("probe_functional_mismatch_not_judged")
	cDupIdx       = simrt.RegisterCounter("probe_device_list_with_duplicate_index")
	cNotModelled  = simrt.RegisterCounter("probe_block_not_judged_by_device_model")
	cSubBand      = simrt.RegisterCounter("op_sub_band_configuration")
	cSharedBand   = simrt.RegisterCounter("op_shared_band_with_concurrent_planners")
	cDeep         = simrt.RegisterCounter("op_long_history_plan_grown_to_several_blocks")
	cNilSet       = simrt.RegisterCounter("probe_empty_device_set_as_nil_slice")
	cRevisit      = simrt.RegisterCounter("op_device_set_planned_again_after_many_others")
	cReuseBuf     = simrt.RegisterCounter("fault_caller_reuses_its_device_list_buffer")
	cScribble     = simrt.RegisterCounter("fault_caller_overwrites_a_plan_it_was_handed")
	cAddOther    = simrt.RegisterCounter("addchannel_did_something_else_than_append_and_the_model_followed")
	cPlaceholder  = simrt.RegisterCounter("op_add_placeholder_slot_frequency_0")
	cFreshChanged = simrt.RegisterCounter("probe_fresh_config_differs_after_run")
	cNotConverged = simrt.RegisterCounter("probe_not_converged_after_faults")

	fDownLost  = simrt.RegisterCounter("fault_downlink_lost")
	fAnsLost   = simrt.RegisterCounter("fault_answer_lost")
	fDup       = simrt.RegisterCounter("fault_block_delivered_twice")
	fReset     = simrt.RegisterCounter("fault_device_reset_to_defaults")
	fRejoin    = simrt.RegisterCounter("fault_device_rejoin_with_cflist")
	fArbitrary = simrt.RegisterCounter("fault_device_misprovisioned_set")
	fForeign   = simrt.RegisterCounter("fault_foreign_block_handed_to_the_apply_function")
	fMidFlight = simrt.RegisterCounter("fault_operator_change_between_request_and_answer")
)

var names = []band.Name{band.EU868, band.US915, band.AU915, band.AS923, band.AS923_2, band.AS923_3, band.AS923_4,
	band.CN470, band.CN779, band.EU433, band.KR920, band.IN865, band.RU864, band.ISM2400}

type msg struct {
	block []spec.LinkADR // what was shipped (ground truth next to the bytes)
	wire  []byte
	fcnt  uint32
	set   []int // device -> NS: the set after applying (LinkADRAns accepted)
	reset bool
	final bool // faults have stopped
}

type world struct {
	deep bool
	// device sets judged since the band last changed: now and then an old one
	// is planned for again (a device that comes back after many others)
	seen    [][]int
	nJudge  int
	revisit bool
	shared  bool     // several tasks plan on this band at the same time
	devBuf  [256]int // the caller's device-list buffer, re-used from call to call (single-owner runs)
	lastPls []lorawan.LinkADRReqPayload
	name    string
	b       band.Band
	m       *spec.Plan
	sess    pipe.Session
	down    *sim.Mailbox
	up      *sim.Mailbox
	maxIdx  int
	deflt   []int
	faults  bool
}

func build(sw *sim.World) {
	w := &world{}
	name := names[simrt.Choose(len(names))]
	rep := simrt.Choose(2) == 1
	dt := lorawan.DwellTime(simrt.Choose(2))
	nSteps := 4 + simrt.Choose(30*sim.Scale)
	w.faults = simrt.Choose(4) != 0
	// now and then a long-lived network: a dynamic plan that has grown to
	// several 16-channel blocks (up to the 96 channels ChMaskCntl 0..5 address)
	w.deep = simrt.Choose(30) == 1
	if w.deep {
		nSteps = 40 + simrt.Choose(60)
		simrt.Count(cDeep)
	}
	b, err := band.GetConfig(name, rep, dt)
	if err != nil {
		panic(err)
	}
	w.b = b
	w.name = b.Name()
	se, cmin, cmax, kind := spec.PlanTraits(w.name)
	w.m = &spec.Plan{Name: w.name, SupportsExtra: se, CFMinDR: cmin, CFMaxDR: cmax, Kind: kind}
	en := map[int]bool{}
	for _, i := range b.GetEnabledUplinkChannelIndices() {
		en[i] = true
		w.deflt = append(w.deflt, i)
	}
	for _, i := range b.GetUplinkChannelIndices() {
		c, _ := b.GetUplinkChannel(i)
		w.m.Chans = append(w.m.Chans, spec.Chan{Freq: c.Frequency, MinDR: c.MinDR, MaxDR: c.MaxDR, Enabled: en[i]})
	}
	switch kind {
	case spec.PlanUS:
		w.maxIdx = 72
	case spec.PlanCN470:
		w.maxIdx = 96
	default:
		// dynamic plans: device channels up to two blocks beyond the 16 the
		// region defines (a network that once had more channels)
		w.maxIdx = 40
		if w.deep {
			w.maxIdx = 96
		}
	}
	r := sim.NewRand(simrt.Raw())
	if simrt.Choose(5) == 0 {
		// shared band: the history is applied before the tasks start, then 2-4
		// request handlers plan for their own devices on the SAME band object
		// at the same time (planning only inspects the band). Every plan is
		// judged exactly as in the single-owner runs; a planner that is not
		// read-only any more shows up as a data race or as a wrong plan.
		nOps := r.Intn(1 + 12*sim.Scale)
		for k := 0; k < nOps; k++ {
			w.bandOp(r)
		}
		w.shared = true
		n := 2 + simrt.Choose(3)
		sw.Notef("W-ADR (shared band): %s repeater=%v dwell=%d, %d operations before %d concurrent planners", w.name, rep, dt, nOps, n)
		simrt.Count(cSharedBand)
		for i := 0; i < n; i++ {
			sub := simrt.Raw()
			k := 2 + simrt.Choose(4)
			sw.Spawn(fmt.Sprintf("handler%d", i), func() {
				rr := sim.NewRand(sub)
				for j := 0; j < k; j++ {
					if simrt.Dead() {
						return
					}
					w.judge(randomSet(rr, w.maxIdx, w.m), "shared band")
				}
				simrt.Count(cNontrivial)
			})
		}
		return
	}
	w.sess = pipe.NewSession(r, r.Intn(2) == 0)
	w.down, w.up = sim.NewMailbox(), sim.NewMailbox()
	sw.Notef("W-ADR: %s repeater=%v dwell=%d, %d steps, faults=%v", w.name, rep, dt, nSteps, w.faults)
	simrt.ForceRunToBlock()
	nsSub, devSub := simrt.Raw(), simrt.Raw()
	first := freshSig(name, rep, dt)
	sw.Finish = append(sw.Finish, func() {
		if last := freshSig(name, rep, dt); last != first {
			simrt.Count(cFreshChanged) // band objects sharing state is property C10's subject (and is caught there)
		}
	})
	sw.Spawn("ns", func() { netServer(w, nSteps, nsSub) })
	sw.Spawn("device", func() { device(w, devSub) })
}

// freshSig describes a brand-new band object of the configuration.
func freshSig(name band.Name, rep bool, dt lorawan.DwellTime) string {
	b, err := band.GetConfig(name, rep, dt)
	if err != nil {
		return err.Error()
	}
	s := fmt.Sprint(b.GetUplinkChannelIndices(), b.GetEnabledUplinkChannelIndices(), b.GetCustomUplinkChannelIndices())
	for _, i := range b.GetUplinkChannelIndices() {
		c, _ := b.GetUplinkChannel(i)
		d, _ := b.GetDownlinkChannel(i)
		s += fmt.Sprintf("|%v/%v", c, d)
	}
	return s
}

func pause(key int32, deadline int64) bool {
	sim.HB()
	ok := simrt.PauseOn(key, deadline)
	sim.HB()
	return ok
}

func sleep(d int64) {
	sim.HB()
	simrt.Sleep(d)
	sim.HB()
}

// ------------------------------------------------------------ band history

func (w *world) bandOp(r *sim.Rand) {
	simrt.Count(cBandOps)
	w.seen, w.nJudge = w.seen[:0], 0
	n := len(w.m.Chans)
	// typical operator configurations of the 72-channel plans: one sub-band with
	// its 500 kHz channel, or the 500 kHz channels only
	if w.m.Kind == spec.PlanUS && r.Intn(5) == 0 {
		sb := r.Intn(9) // 8 = no 125 kHz channel at all
		for j := 0; j < n; j++ {
			on := (sb < 8 && (j/8 == sb || j == 64+sb)) || (sb == 8 && j >= 64 && r.Intn(2) == 0)
			var err error
			if on {
				err = w.b.EnableUplinkChannelIndex(j)
			} else {
				err = w.b.DisableUplinkChannelIndex(j)
			}
			if err == nil { // (whether the band takes an operation is not judged: the model follows its answer)
				w.m.Chans[j].Enabled = on
			}
		}
		simrt.Count(cSubBand)
		simrt.Trace(evOp, 6, uint64(sb))
		return
	}
	switch k := r.Intn(10); {
	case (k < 3 || (w.deep && k < 6)) && w.m.SupportsExtra && ((n < 30 && len(w.m.CustomIdx()) < 20) || (w.deep && n < 92)):
		f := uint32(860000000 + 100000*r.Intn(200))
		minDR, maxDR := w.m.CFMinDR, w.m.CFMaxDR
		if r.Intn(4) == 0 {
			minDR, maxDR = 6, 6
		}
		if r.Intn(6) == 0 {
			// a placeholder slot (frequency 0): added switched off, may be
			// enabled later like any other channel
			f = 0
			simrt.Count(cPlaceholder)
		}
		if err := w.b.AddChannel(f, minDR, maxDR); err != nil {
			simrt.Count(cNotJudged) // whether AddChannel takes these arguments is not this property's subject
			return
		}
		on := false
		for _, i := range w.b.GetEnabledUplinkChannelIndices() {
			if i == n {
				on = true
			}
		}
		w.m.Add(f, minDR, maxDR, on)
		w.followAdd(n, f, minDR, maxDR)
		simrt.Trace(evOp, 1, uint64(n))
	case k < 7:
		i := r.Intn(n)
		// structured: whole sub-bands for the big plans
		if w.m.Kind != spec.PlanDynamic && r.Intn(2) == 0 {
			base := 8 * r.Intn(n/8)
			for j := base; j < base+8 && j < n; j++ {
				if w.b.DisableUplinkChannelIndex(j) == nil {
					w.m.Chans[j].Enabled = false
				}
			}
			simrt.Trace(evOp, 4, uint64(base))
			return
		}
		if err := w.b.DisableUplinkChannelIndex(i); err != nil {
			simrt.Count(cNotJudged)
			return
		}
		w.m.Chans[i].Enabled = false
		simrt.Trace(evOp, 2, uint64(i))
	default:
		i := r.Intn(n)
		if w.m.Kind != spec.PlanDynamic && r.Intn(2) == 0 {
			base := 8 * r.Intn(n/8)
			for j := base; j < base+8 && j < n; j++ {
				if w.b.EnableUplinkChannelIndex(j) == nil {
					w.m.Chans[j].Enabled = true
				}
			}
			simrt.Trace(evOp, 5, uint64(base))
			return
		}
		if err := w.b.EnableUplinkChannelIndex(i); err != nil {
			simrt.Count(cNotJudged)
			return
		}
		w.m.Chans[i].Enabled = true
		simrt.Trace(evOp, 3, uint64(i))
	}
}

// --------------------------------------------------------------- oracles

func toSpec(pls []lorawan.LinkADRReqPayload) []spec.LinkADR {
	out := make([]spec.LinkADR, len(pls))
	for i, p := range pls {
		out[i] = spec.LinkADR{ChMaskCntl: int(p.Redundancy.ChMaskCntl), ChMask: [16]bool(p.ChMask)}
	}
	return out
}

// judge applies A1, A2, A4 (and A3's encodability) for one device set and
// returns the payloads.
func (w *world) judge(dev []int, label string) []lorawan.LinkADRReqPayload {
	simrt.Count(cSets)
	sim.Op()
	if !w.shared && !w.revisit {
		w.nJudge++
		if len(w.seen) < 40 {
			w.seen = append(w.seen, append([]int(nil), dev...))
		}
		if w.nJudge%18 == 0 && len(w.seen) > 17 {
			old := w.seen[(w.nJudge/18)%3]
			w.revisit = true
			simrt.Count(cRevisit)
			w.judge(append([]int(nil), old...), label+", planned for again after other devices")
			w.revisit = false
		}
	}
	// what the caller hands in is the caller's: in single-owner runs the
	// device list lives in ONE buffer that the next call overwrites (a request
	// loop with a scratch slice), and the plan handed out by the previous call
	// has been scribbled over by then. The band must have kept neither.
	arg := dev
	if len(dev) == 0 && w.nJudge%2 == 0 {
		// a device with no channel at all: the empty set as a nil slice (what
		// the band's own apply function hands back for such a device)
		arg = nil
		simrt.Count(cNilSet)
	} else if !w.shared && len(dev) <= len(w.devBuf) {
		simrt.Count(cReuseBuf)
		arg = w.devBuf[:len(dev)]
		ownerWriteCopy(arg, dev)
		if w.lastPls != nil {
			simrt.Count(cScribble)
			ownerWritePlan(w.lastPls)
			w.lastPls = nil
		}
	}
	var pls []lorawan.LinkADRReqPayload
	if sim.Guard("panic.plan", func() { pls = w.b.GetLinkADRReqPayloadsForEnabledUplinkChannelIndices(arg) }) {
		return nil
	}
	if !spec.EqualInts(arg, dev) {
		// a planner may put the list it was given in order; it may not change
		// WHICH channels the caller's list names
		a, d := append([]int(nil), arg...), append([]int(nil), dev...)
		sortInts(a)
		sortInts(d)
		if !spec.EqualInts(dedup(a), dedup(d)) {
			simrt.Report("a1.input-modified:"+w.name, fmt.Sprintf("%s (%s): the planner changed the device list it was given from %v to %v", w.name, label, dev, arg))
		} else {
			simrt.Count(cNotJudged)
		}
		ownerWriteCopy(arg, dev)
	}
	target := w.m.Target(dev)
	// a list that names a channel twice is not a set, and a channel beyond the
	// plan is nothing the band ever had: both are handed over (a crash is a
	// crash), but for the first only the count bound and encodability are
	// judged, and for the second the band's own apply function may refuse
	sortedDev := append([]int(nil), dev...)
	sortInts(sortedDev)
	isSet := len(dedup(sortedDev)) == len(dev)
	beyond := false
	for _, c := range dev {
		if c >= len(w.m.Chans) {
			beyond = true
		}
	}
	// A1: the band's own apply function
	var got []int
	var err error
	if sim.Guard("panic.apply", func() { got, err = w.b.GetEnabledUplinkChannelIndicesForLinkADRReqPayloads(arg, pls) }) {
		return pls
	}
	if !w.shared {
		// (the caller keeps a private copy for its own use and will scribble
		// over the slice it was handed before the next call)
		w.lastPls = pls
		pls = append([]lorawan.LinkADRReqPayload(nil), pls...)
	}
	if got == nil {
		got = []int{}
	}
	got = append([]int(nil), got...)
	sortInts(got)
	got = dedup(got)
	if !isSet {
		simrt.Count(cNotJudged)
	} else if err != nil && beyond {
		simrt.Count(cNotJudged)
	} else if err != nil {
		simrt.Report("a1.apply-error:"+w.name, fmt.Sprintf("%s (%s): applying the generated payloads %+v to device set %v fails: %v", w.name, label, pls, dev, err))
	} else if !spec.EqualInts(got, target) {
		simrt.Report("a1.target:"+w.name, fmt.Sprintf("%s (%s): device %v + payloads %+v -> %v, but the network's enabled channels restricted to what the device knows are %v (network enabled %v, custom %v)", w.name, label, dev, pls, got, target, w.m.EnabledIdx(), w.m.CustomIdx()))
	}
	// A2: the independent device model
	// the device model judges only what it models: for dynamic plans a device
	// channel index >= 16 exists only if the network itself has (had) that many
	// channels - the library lets a plan grow and addresses block k with
	// ChMaskCntl k; on a plan of <= 16 channels such a stale index has no
	// Regional-Parameters meaning and only A1 judges it
	modelled := true
	if w.m.Kind == spec.PlanDynamic && len(w.m.Chans) <= 16 {
		for _, c := range dev {
			if c >= 16 {
				modelled = false
			}
		}
	}
	if res, ok := spec.ApplyLinkADR(w.m.Kind, dev, toSpec(pls)); !ok || !modelled || !isSet {
		simrt.Count(cNotModelled) // a ChMaskCntl value the device model does not implement: A1 alone judges
	} else if !spec.EqualInts(res, target) {
		simrt.Report("a2.target:"+w.name, fmt.Sprintf("%s (%s): a device with %v processing %+v ends with %v, target is %v (network enabled %v, custom %v)", w.name, label, dev, pls, res, target, w.m.EnabledIdx(), w.m.CustomIdx()))
	}
	// A3 (encodability; the wire trip is done for blocks that are sent)
	for _, p := range pls {
		if _, err := p.MarshalBinary(); err != nil {
			simrt.Report("a3.unencodable:"+w.name, fmt.Sprintf("%s (%s): generated payload %+v cannot be encoded: %v", w.name, label, p, err))
		}
	}
	// A4: count bound, and nothing when the device already matches
	bound := spec.Blocks(w.m.All(), dev) + 1
	if len(pls) > bound {
		simrt.Report("a4.count:"+w.name, fmt.Sprintf("%s (%s): %d payloads for %d 16-channel blocks (device %v)", w.name, label, len(pls), bound-1, dev))
	}
	sorted := append([]int(nil), dev...)
	sortInts(sorted)
	if spec.EqualInts(dedup(sorted), target) {
		simrt.Count(cEmptyPlan)
		if len(pls) != 0 && isSet {
			simrt.Report("a4.not-empty:"+w.name, fmt.Sprintf("%s (%s): device %v already matches the target but %d payloads were generated: %+v", w.name, label, dev, len(pls), pls))
		}
	}
	for _, p := range pls {
		if p.Redundancy.ChMaskCntl == 7 {
			simrt.Count(cPlanB)
			break
		}
	}
	for _, c := range dev {
		if c >= len(w.m.Chans) {
			simrt.Count(cBeyond)
			break
		}
	}
	return pls
}

// followAdd: what an accepted AddChannel does to the plan beyond "there is now
// a custom channel with these parameters" is not in the statement (a band may
// append a channel, recognise one it already has, fill an unused slot). The
// model appended; if the band did something else that leaves the standard and
// the other custom channels as they were, the model follows the band.
func (w *world) followAdd(nBefore int, f uint32, minDR, maxDR int) {
	var obs []spec.Chan
	ok := true
	if sim.Guard("panic.plan", func() {
		custom, enabled := map[int]bool{}, map[int]bool{}
		for _, i := range w.b.GetCustomUplinkChannelIndices() {
			custom[i] = true
		}
		for _, i := range w.b.GetEnabledUplinkChannelIndices() {
			enabled[i] = true
		}
		for k, i := range w.b.GetUplinkChannelIndices() {
			c, err := w.b.GetUplinkChannel(i)
			if i != k || err != nil {
				ok = false
				return
			}
			obs = append(obs, spec.Chan{Freq: c.Frequency, MinDR: c.MinDR, MaxDR: c.MaxDR, Enabled: enabled[i], Custom: custom[i]})
		}
	}) || !ok {
		return
	}
	m := w.m.Chans
	same := len(obs) == len(m)
	for i := 0; same && i < len(m); i++ {
		same = obs[i] == m[i]
	}
	if same || len(obs) < nBefore || len(obs) > nBefore+1 {
		return
	}
	isNew := func(c spec.Chan) bool { return c.Custom && c.Freq == f && c.MinDR == minDR && c.MaxDR == maxDR }
	found := false
	for i, c := range obs {
		if isNew(c) {
			found = true
		}
		if i >= nBefore {
			if !c.Custom {
				return
			}
			continue
		}
		old := m[i]
		switch {
		case !old.Custom:
			if c != old {
				return
			}
		case old.Freq == 0 && isNew(c):
		case isNew(c) && isNew(old):
		default:
			if c != old {
				return
			}
		}
	}
	if !found {
		return
	}
	simrt.Count(cAddOther)
	w.m.Chans = obs
}

// ownerWrite*: writes a caller is entitled to make to memory it owns (its
// device-list buffer, a plan it was handed).
func ownerWriteCopy(dst, src []int) { copy(dst, src) }

// ownerWritePlan: appending to a plan one was handed (the spare capacity behind
// it only; whether the payloads themselves are the caller's to edit is not in
// the statement).
func ownerWritePlan(pls []lorawan.LinkADRReqPayload) {
	spare := pls[len(pls):cap(pls)]
	for i := range spare {
		spare[i].ChMask = lorawan.ChMask{true, false, true}
		spare[i].Redundancy.ChMaskCntl = 5
		spare[i].DataRate = 9
	}
}

func sortInts(a []int) {
	for i := 1; i < len(a); i++ {
		for j := i; j > 0 && a[j-1] > a[j]; j-- {
			a[j-1], a[j] = a[j], a[j-1]
		}
	}
}

func dedup(a []int) []int {
	out := []int{}
	for i, v := range a {
		if i == 0 || v != a[i-1] {
			out = append(out, v)
		}
	}
	return out
}

func randomSet(r *sim.Rand, max int, m *spec.Plan) []int {
	var out []int
	switch r.Intn(5) {
	case 0: // structured sub-band patterns
		for b := 0; b*8 < max; b++ {
			if r.Intn(2) == 0 {
				for j := 0; j < 8 && b*8+j < max; j++ {
					out = append(out, b*8+j)
				}
			}
		}
	case 1: // exactly the network's enabled set (sometimes with one channel replaced by a duplicate of another)
		out = append([]int(nil), m.EnabledIdx()...)
		if len(out) > 1 && r.Intn(3) == 0 {
			out[r.Intn(len(out))] = out[r.Intn(len(out))]
			simrt.Count(cDupIdx)
		}
		return out
	case 2: // empty
	default:
		p := 1 + r.Intn(4)
		for i := 0; i < max; i++ {
			if r.Intn(4) < p {
				out = append(out, i)
			}
		}
	}
	// a device list may name a channel twice
	if len(out) > 0 && r.Intn(5) == 0 {
		k := 1 + r.Intn(2)
		for ; k > 0; k-- {
			out = append(out, out[r.Intn(len(out))])
		}
		simrt.Count(cDupIdx)
	}
	// a device reports its channels in any order
	if r.Intn(3) == 0 {
		for i := len(out) - 1; i > 0; i-- {
			j := r.Intn(i + 1)
			out[i], out[j] = out[j], out[i]
		}
	}
	return out
}

// ------------------------------------------------------------- NS task

// foreignApply hands the band's apply function a block it did not generate
// itself (a block acknowledged late, built for another region or simply
// corrupted): an error path of a function the planner's clients call all the
// time. What it answers is not this property's subject; that the band plans
// correctly afterwards is.
func (w *world) foreignApply(r *sim.Rand, dev []int) {
	simrt.Count(fForeign)
	n := 1 + r.Intn(3)
	var pls []lorawan.LinkADRReqPayload
	for i := 0; i < n; i++ {
		var p lorawan.LinkADRReqPayload
		p.Redundancy.ChMaskCntl = uint8(r.Intn(8))
		for j := range p.ChMask {
			p.ChMask[j] = r.Intn(2) == 0
		}
		pls = append(pls, p)
	}
	// (what the apply function does with payloads the band did not generate is
	// not in the statement - also not whether it survives them; what matters
	// is that the band plans correctly afterwards)
	func() {
		defer func() {
			if r := recover(); r != nil {
				if _, ok := r.(simrt.StepCapPanic); ok {
					panic(r)
				}
				simrt.Count(cNotJudged)
			}
		}()
		w.b.GetEnabledUplinkChannelIndicesForLinkADRReqPayloads(dev, pls)
	}()
}

func netServer(w *world, nSteps int, sub uint64) {
	sim.HB()
	defer sim.HB()
	r := sim.NewRand(sub)
	belief := append([]int(nil), w.deflt...)
	var fcnt uint32 = uint32(r.Intn(1 << 16))
	for step := 0; step < nSteps; step++ {
		if simrt.Dead() {
			return
		}
		for k := r.Intn(4); k > 0; k-- {
			w.bandOp(r)
		}
		if r.Intn(8) == 0 {
			w.foreignApply(r, belief)
		}
		// take answers that arrived meanwhile
		belief = w.collect(belief)
		simrt.Count(cPlans)
		simrt.Trace(evPlan, uint64(step), uint64(len(belief)))
		// judged sets: the belief, random sets, and a window of masks
		pls := w.judge(belief, "belief")
		for k := 0; k < 3; k++ {
			w.judge(randomSet(r, w.maxIdx, w.m), "generated set")
		}
		for _, c := range belief {
			if c < len(w.m.Chans) && w.m.Chans[c].Custom {
				simrt.Count(cCustomOn)
			}
		}
		for _, c := range w.m.CustomIdx() {
			known := false
			for _, d := range belief {
				if d == c {
					known = true
				}
			}
			if !known {
				simrt.Count(cCustomOff)
				break
			}
		}
		if w.m.Kind == spec.PlanDynamic && r.Intn(4) == 0 {
			simrt.Count(cSweeps)
			base := r.Intn(1<<16 - 1024)
			extra := -1
			if r.Intn(3) == 0 {
				extra = 16 + r.Intn(24) // plus one stale channel beyond the first block
			}
			for mask := base; mask < base+1024; mask++ {
				var d []int
				for i := 0; i < 16; i++ {
					if mask&(1<<uint(i)) != 0 {
						d = append(d, i)
					}
				}
				if extra >= 0 {
					d = append(d, extra)
				}
				w.judge(d, "mask window")
			}
		}
		if len(pls) == 0 {
			sleep(1e9)
			continue
		}
		w.ship(r, pls, &fcnt, false)
		if w.faults && r.Intn(6) == 0 {
			// the operator changes the plan between request and answer
			simrt.Count(fMidFlight)
			w.bandOp(r)
		}
		sleep(2e9)
	}
	// ---- faults have stopped: bounded convergence (A5) ----
	w.down.Send(2, &msg{final: true}) // status request
	sleep(3e9)
	belief = w.collect(belief)
	pls := w.judge(belief, "after faults")
	if len(pls) > 0 {
		w.ship(r, pls, &fcnt, true)
		sleep(3e9)
		belief = w.collect(belief)
	}
	if again := w.judge(belief, "after convergence"); len(again) != 0 {
		simrt.Count(cNotConverged) // A5 is reported, not an oracle (it depends on the whole frame pipeline)
	} else {
		simrt.Count(cConverged)
	}
	w.down.Send(1, nil)
}

// ship sends a LinkADRReq block as real MAC commands in a real downlink frame.
func (w *world) ship(r *sim.Rand, pls []lorawan.LinkADRReqPayload, fcnt *uint32, final bool) {
	var cmds []spec.Cmd
	for _, p := range pls {
		var m int64
		for i := 0; i < 16; i++ {
			if p.ChMask[i] {
				m |= 1 << uint(i)
			}
		}
		cmds = append(cmds, spec.Cmd{Up: false, CID: 0x03, F: []int64{int64(p.DataRate), int64(p.TXPower), m, int64(p.Redundancy.ChMaskCntl), int64(p.Redundancy.NbRep)}})
	}
	*fcnt++
	f := spec.Frame{MType: 3, DevAddr: w.sess.DevAddr, FCnt: *fcnt, HasPort: true, FPort: 0, FRMCmds: cmds}
	if len(cmds)*5 <= 15 && r.Intn(2) == 0 {
		f = spec.Frame{MType: 3, DevAddr: w.sess.DevAddr, FCnt: *fcnt, FOpts: cmds}
	}
	wire, stage, err := pipe.Seal(&w.sess, f.ToLib(), pipe.TxParams{})
	if err != nil {
		// un-encodable payloads are reported by A3 in judge(); any other failure
		// of the frame pipeline is not this property's subject
		simrt.Count(cNotJudged)
		_ = stage
		return
	}
	simrt.Count(cWire)
	if w.faults && !final && r.Intn(5) == 0 {
		simrt.Count(fDownLost)
		simrt.Count(cNontrivial)
		return
	}
	w.down.Send(0, &msg{wire: wire, fcnt: *fcnt, final: final, block: toSpec(pls)})
	if w.faults && !final && r.Intn(8) == 0 {
		simrt.Count(fDup)
		simrt.Count(cNontrivial)
		w.down.Send(0, &msg{wire: append([]byte(nil), wire...), fcnt: *fcnt})
	}
}

// collect updates the belief from LinkADRAns / status messages.
func (w *world) collect(belief []int) []int {
	for {
		m, ok := w.up.TryRecv()
		if !ok {
			return belief
		}
		a := m.Data.(*msg)
		belief = append([]int(nil), a.set...)
	}
}

// ------------------------------------------------------------ device task

func device(w *world, sub uint64) {
	sim.HB()
	defer sim.HB()
	r := sim.NewRand(sub)
	actual := append([]int(nil), w.deflt...)
	for {
		m, ok := w.down.TryRecv()
		if !ok {
			if !pause(w.down.Key(), 0) {
				return
			}
			continue
		}
		if m.Kind == 1 {
			return
		}
		dm := m.Data.(*msg)
		if m.Kind == 2 {
			w.up.Send(0, &msg{set: append([]int(nil), actual...)})
			continue
		}
		// device-side faults happen between downlinks
		if w.faults && !dm.final {
			switch r.Intn(12) {
			case 0:
				actual = append([]int(nil), w.deflt...)
				simrt.Count(fReset)
				simrt.Count(cNontrivial)
				w.up.Send(0, &msg{set: actual, reset: true})
			case 1:
				// re-join: the device learns the custom channels of the CFList
				actual = append([]int(nil), w.deflt...)
				k := 0
				for i, c := range w.m.Chans {
					if c.Custom && c.MinDR == w.m.CFMinDR && c.MaxDR == w.m.CFMaxDR && k < 5 {
						actual = append(actual, i)
						k++
					}
				}
				simrt.Count(fRejoin)
				simrt.Count(cNontrivial)
				w.up.Send(0, &msg{set: actual, reset: true})
			case 2:
				actual = randomSet(r, w.maxIdx, w.m)
				simrt.Count(fArbitrary)
				simrt.Count(cNontrivial)
			}
		}
		// the real library decodes the block on the device side
		var rx lorawan.PHYPayload
		if err := rx.UnmarshalBinary(dm.wire); err != nil {
			simrt.Count(cNotJudged)
			continue
		}
		if okv, err := pipe.Validate(&w.sess, &rx, dm.fcnt, pipe.TxParams{}); !okv || err != nil {
			simrt.Count(cNotJudged)
			continue
		}
		if _, err := pipe.Open(&w.sess, &rx); err != nil {
			simrt.Count(cNotJudged)
			continue
		}
		fr, okf := spec.FromLibFrame(&rx)
		if !okf {
			simrt.Count(cNotJudged)
			continue
		}
		cmds := fr.FOpts
		if fr.HasPort && fr.FPort == 0 {
			cmds = fr.FRMCmds
		}
		var block []spec.LinkADR
		for _, c := range cmds {
			if c.CID != 0x03 || len(c.F) != 5 {
				simrt.Count(cNotJudged) // (how a LinkADRReq survives the wire is C07's and C05's subject)
				continue
			}
			var l spec.LinkADR
			l.ChMaskCntl = int(c.F[3])
			for i := 0; i < 16; i++ {
				l.ChMask[i] = c.F[2]&(1<<uint(i)) != 0
			}
			block = append(block, l)
		}
		if dm.block != nil && fmt.Sprint(block) != fmt.Sprint(dm.block) {
			simrt.Count(cNotJudged) // (the wire trip of a block is C07's / C05's subject; C14 asks for encodability, judged where the plan is made)
			block = dm.block
		}
		res, okA := spec.ApplyLinkADR(w.m.Kind, actual, block)
		simrt.Trace(evDev, uint64(len(block)), uint64(len(res)))
		if okA {
			actual = res
			simrt.Count(cApplied)
		}
		// LinkADRAns
		if w.faults && !dm.final && r.Intn(5) == 0 {
			simrt.Count(fAnsLost)
			simrt.Count(cNontrivial)
			continue
		}
		w.up.Send(0, &msg{set: append([]int(nil), actual...)})
	}
}
