// Package reg is world W-REG (property C07): an operator registering
// proprietary MAC commands in the process-global registry while 2-4 codec
// tasks encode and decode MAC-command streams through the real library.
//
// Oracles (DESIGN.md §5 C07): R1 registry linearizability (porcupine),
// R2 stream framing against the harness's own splitter and bit-layout
// decoder, R3 direction isolation, R4 size table = encoded length,
// R5 lossless-or-error over in-range and full-domain field values, plus the
// deterministic race oracle on the registry.
package reg

import (
	"reflect"
	"bytes"
	"fmt"
	"time"

	"github.com/anishathalye/porcupine"
	"github.com/brocaar/lorawan"

	"verif/sim"
	"verif/simrt"
	"verif/spec"
	"verif/worlds"
)

func init() { worlds.Register("reg", build) }

var cDeepRegs = simrt.RegisterCounter("op_long_history_of_registrations_over_the_whole_range")

// wideRegs: this run's operators cover the whole proprietary range (set
// during build, read by the operator tasks).
var wideRegs bool

var cHugeSize = simrt.RegisterCounter("fault_registration_with_a_size_no_frame_can_carry")

var cSpareCap = simrt.RegisterCounter("probe_proprietary_payload_with_spare_capacity_encoded")
var cOwnerWrite = simrt.RegisterCounter("fault_caller_modifies_decoded_commands_it_was_handed")

var (
	cTypedNil = simrt.RegisterCounter("decoded_command_carries_a_typed_nil_payload_pointer")
	evReg    = sim.RegisterEv(200, "register")
	evGet    = sim.RegisterEv(201, "get")
	evDecode = sim.RegisterEv(202, "decode")
	evR5     = sim.RegisterEv(203, "r5")
	evPipe   = sim.RegisterEv(204, "pipe")

	cNontrivial       = simrt.RegisterCounter("nontrivial")
	cRegInDecode      = simrt.RegisterCounter("probe_register_inside_decode")
	cRegRejected      = simrt.RegisterCounter("probe_register_rejected_cid")
	cReRegister       = simrt.RegisterCounter("probe_reregister_other_size")
	cSizeZero         = simrt.RegisterCounter("probe_register_size0_noop")
	cDecodes          = simrt.RegisterCounter("op_decode_stream")
	cDecodeErr        = simrt.RegisterCounter("probe_decode_truncated")
	cGets             = simrt.RegisterCounter("op_get_size")
	cRegs             = simrt.RegisterCounter("op_register")
	cR5               = simrt.RegisterCounter("op_lossless_or_error")
	cR5Wild           = simrt.RegisterCounter("probe_r5_out_of_range_value")
	cEncFOpts         = simrt.RegisterCounter("op_frame_roundtrip_with_encrypted_fopts")
	cWildFrame        = simrt.RegisterCounter("op_frame_with_possibly_out_of_range_command")
	cWildFrameRefused = simrt.RegisterCounter("probe_frame_with_out_of_range_command_refused")
	cR5Rejected       = simrt.RegisterCounter("probe_r5_encoder_rejected")
	cResolution       = simrt.RegisterCounter("op_wire_resolution_checks")
	cNotJudged        = simrt.RegisterCounter("probe_functional_mismatch_not_judged")
	cPipes            = simrt.RegisterCounter("op_frame_roundtrip")
	cPropInStream     = simrt.RegisterCounter("probe_proprietary_in_stream")
	cFull15           = simrt.RegisterCounter("probe_fopts_15_bytes")
	cLong             = simrt.RegisterCounter("probe_frm_over_200_bytes")
	cOtherDir         = simrt.RegisterCounter("probe_cid_registered_in_other_direction")
	cPorcOK           = simrt.RegisterCounter("porcupine_ok")
	cPorcUnknown      = simrt.RegisterCounter("porcupine_unknown")
	cPorcIllegal      = simrt.RegisterCounter("porcupine_illegal")
	cHistOps          = simrt.RegisterCounter("history_ops")
)

// ---- model registry shared by the tasks (harness bookkeeping: norace) ----

var modelSize [2][256]int32 // -1 = not registered

func dirIdx(up bool) int {
	if up {
		return 1
	}
	return 0
}

//go:norace
func modelGet(up bool, cid byte) int { return int(modelSize[dirIdx(up)][cid]) }

//go:norace
func modelSet(up bool, cid byte, n int) { modelSize[dirIdx(up)][cid] = int32(n) }

//go:norace
func modelReset() {
	for d := 0; d < 2; d++ {
		for c := 0; c < 256; c++ {
			modelSize[d][c] = -1
		}
	}
}

// initialSize is the model's idea of the registry before any registration:
// the standard command table.
func initialSize(up bool, cid byte) int {
	if d := spec.Desc(up, cid); d != nil && d.Size > 0 {
		return d.Size
	}
	return -1
}

// ---- recorded history ----

type regOp struct {
	by       int
	inv, ret int64
	up       bool
	cid      byte
	size     int
	err      bool
}

type getOp struct {
	inv, ret int64
	client   int
	up       bool
	cid      byte
	found    bool
	size     int
	typ      string
}

type decCmd struct {
	cid    byte
	isProp bool
	hasPl  bool
	raw    []byte
	f      []int64
	typeOK bool
}

type decOp struct {
	truth    []spec.Cmd // the commands the stream was generated from (nil if the tail was cut)
	inv, ret int64
	up       bool
	stream   []byte
	err      bool
	cmds     []decCmd
	where    string
}

// encRefusal: the encoder refused a proprietary command; judged after the run
// against the registration history (a hardened encoder may legitimately
// consult the registry, so the refusal is a defect only if the registry held
// exactly that size during the whole call).
type encRefusal struct {
	inv, ret int64
	up       bool
	cid      byte
	n        int
	msg      string
}

type history struct {
	refusals [][]encRefusal
	regs     []regOp   // merged (by return stamp) before checking
	regsBy   [][]regOp // per operator task
	gets     [][]getOp
	decs     [][]decOp
}

func build(w *sim.World) {
	modelReset()
	nCodec := 2 + simrt.Choose(3)
	nRegs := simrt.Choose(1 + 6*sim.Scale)
	if simrt.Choose(40) == 1 {
		// now and then an operator that registers its way through the whole
		// proprietary range: a registry with a hundred and more entries
		nRegs = 60 + simrt.Choose(200)
		wideRegs = true
		simrt.Count(cDeepRegs)
	} else {
		wideRegs = false
	}
	h := &history{gets: make([][]getOp, nCodec), decs: make([][]decOp, nCodec), refusals: make([][]encRefusal, nCodec)}
	opSeed := simrt.Raw()
	w.Notef("W-REG: %d codec tasks, %d registrations", nCodec, nRegs)

	// one or two operators; they register disjoint CID sets (even / odd CIDs),
	// so that the per-CID order of registrations stays unambiguous for R2
	nOper := 1 + simrt.Choose(2)
	h.regsBy = make([][]regOp, nOper)
	for k := 0; k < nOper; k++ {
		k := k
		sub := opSeed + uint64(k)*0x9e3779b97f4a7c15
		w.Spawn(fmt.Sprintf("operator%d", k), func() { operator(h, k, nOper, nRegs, sub) })
	}
	for t := 0; t < nCodec; t++ {
		t := t
		n := 3 + simrt.Choose(12*sim.Scale)
		sub := simrt.Raw()
		w.Spawn(fmt.Sprintf("codec%d", t), func() { codec(h, t, n, sub) })
	}
	w.Finish = append(w.Finish, func() { check(h) })
}

func operator(h *history, me, nOper, n int, sub uint64) {
	r := sim.NewRand(sub)
	for i := 0; i < n; i++ {
		up := r.Intn(2) == 0
		var cid byte
		switch k := r.Intn(10); {
		case k < 7 && wideRegs:
			cid = 0x80 + byte(r.Intn(128))
		case k < 7:
			cid = 0x80 + byte(r.Intn(4))
		case k < 8:
			cid = 0x80 + byte(r.Intn(128))
		case k < 9:
			cid = 0xfc + byte(r.Intn(4)) // the last proprietary CIDs
		default:
			cid = byte(r.Intn(128))
		}
		if nOper > 1 && cid >= 0x80 {
			cid = cid&^1 | byte(me) // operator 0: even CIDs, operator 1: odd CIDs
		}
		size := 1 + r.Intn(8)
		if r.Intn(4) == 0 {
			size = 9 + r.Intn(6) // up to the FOpts budget
		}
		if r.Intn(16) == 0 {
			// a size no frame can carry: whether the registry takes or refuses
			// it, its answer and its state must agree
			size = []int{242, 243, 255, 256, 1000, 65536}[r.Intn(6)]
			simrt.Count(cHugeSize)
		}
		cur := modelGet(up, cid)
		if cid >= 0x80 && cur < 0 && r.Intn(8) == 0 {
			size = 0 // documented no-op on an unregistered CID
		}
		simrt.Seam(1)
		op := regOp{by: me, up: up, cid: cid, size: size}
		op.inv = simrt.Tick()
		err := lorawan.RegisterProprietaryMACCommand(up, lorawan.CID(cid), size)
		op.ret = simrt.Tick()
		op.err = err != nil
		simrt.Count(cRegs)
		if cid < 0x80 {
			simrt.Count(cRegRejected)
		} else if size == 0 {
			simrt.Count(cSizeZero)
		} else {
			if cur >= 0 && cur != size {
				simrt.Count(cReRegister)
			}
			if err == nil {
				modelSet(up, cid, size)
			}
		}
		h.regsBy[me] = append(h.regsBy[me], op)
		simrt.Trace(evReg, uint64(cid)|uint64(dirIdx(up))<<8, uint64(size))
	}
}

func genFor(up bool) spec.CmdGen {
	g := spec.CmdGen{Up: up, Prop: map[byte]int{}}
	for c := 0x80; c < 0x84; c++ {
		n := modelGet(up, byte(c))
		if n < 0 {
			n = 0
			if modelGet(!up, byte(c)) > 0 {
				simrt.Count(cOtherDir)
			}
		}
		g.Prop[byte(c)] = n
	}
	// up to three other CIDs that are registered in this direction
	extra := 0
	for c := 0xff; c >= 0x84 && extra < 3; c-- {
		if n := modelGet(up, byte(c)); n > 0 {
			g.Prop[byte(c)] = n
			extra++
		}
	}
	return g
}

// encodeStream serialises cmds with the library's encoders and checks R4
// (encoded length = 1 + table size) on the way.
func rejectedSig(c spec.Cmd) string {
	if c.CID == 0x0e && !c.Up && len(c.F) == 4 && c.F[2] == 1 {
		return "r5.rejected-valid:ForceRejoinReq.RejoinType=1"
	}
	return "r5.rejected-valid:" + cmdName(c)
}

func encodeStream(h *history, id int, cs []spec.Cmd) ([]byte, bool) {
	var out []byte
	for _, c := range cs {
		mc := spec.ToLibCmd(c)
		inv := simrt.Tick()
		b, err := mc.MarshalBinary()
		ret := simrt.Tick()
		if err != nil {
			if c.CID >= 0x80 {
				h.refusals[id] = append(h.refusals[id], encRefusal{inv, ret, c.Up, c.CID, len(c.Raw), err.Error()})
			} else if d := spec.Desc(c.Up, c.CID); d != nil && !d.InSpec(c) {
				simrt.Count(cNotJudged) // a legacy value: the encoder need not take it
			} else {
				simrt.Report(rejectedSig(c), fmt.Sprintf("spec-valid command %v refused by encoder: %v", c, err))
			}
			return nil, false
		}
		if len(b) != spec.WireSize(c) {
			simrt.Report(fmt.Sprintf("r4.size:%s", cmdName(c)), fmt.Sprintf("command %v encodes to %d bytes, table says %d", c, len(b), spec.WireSize(c)))
			return nil, false
		}
		// the same value encoded again (a frame is marshalled for its MIC and
		// again for the wire) gives the same bytes: encoding does not consume
		// or alter the value
		if pp, ok := mc.Payload.(*lorawan.ProprietaryMACCommandPayload); ok && cap(pp.Bytes) > len(pp.Bytes) {
			simrt.Count(cSpareCap)
		}
		b = append([]byte(nil), b...) // (private copy: the result may share memory with the value)
		inv2 := simrt.Tick()
		b2, err2 := mc.MarshalBinary()
		ret2 := simrt.Tick()
		if err2 != nil && c.CID >= 0x80 {
			// (an encoder that consults the registry may refuse the second time
			// if a registration landed in between: judged against the history)
			h.refusals[id] = append(h.refusals[id], encRefusal{inv2, ret2, c.Up, c.CID, len(c.Raw), err2.Error()})
			return nil, false
		}
		if err2 != nil || !bytes.Equal(b, b2) {
			simrt.Report(fmt.Sprintf("r5.lossy:%s:second-encoding", cmdName(c)), fmt.Sprintf("command %v encodes to %x, and encoded again to %x (err %v)", c, b, b2, err2))
			return nil, false
		}
		if c.CID < 0x80 {
			// bit-exactness against the format table is property C06's subject: counted, not judged
			if want := append([]byte{c.CID}, spec.EncodeSpec(c)...); !bytes.Equal(b, want) {
				simrt.Count(cNotJudged)
			}
		}
		out = append(out, b...)
	}
	return out, true
}

func cmdName(c spec.Cmd) string {
	if c.CID >= 0x80 {
		return "Proprietary"
	}
	if d := spec.Desc(c.Up, c.CID); d != nil {
		return d.Name
	}
	return fmt.Sprintf("cid%02x", c.CID)
}

func recordDecoded(up bool, pls []lorawan.Payload) []decCmd {
	var out []decCmd
	for _, p := range pls {
		mc, ok := p.(*lorawan.MACCommand)
		if !ok {
			out = append(out, decCmd{typeOK: false})
			continue
		}
		dc := decCmd{cid: byte(mc.CID), typeOK: true}
		// "encoding either returns an error or produces bytes": what a decoder
		// handed out is a value of the library's own types and goes through the
		// encoder like any other (a crash is neither an error nor bytes)
		if mc.Payload != nil {
			if rv := reflect.ValueOf(mc.Payload); rv.Kind() == reflect.Ptr && rv.IsNil() {
				// a typed nil pointer in the interface: no payload value (what an
				// encoder does with a wrapper around nothing is not in the statement)
				simrt.Count(cTypedNil)
				out = append(out, dc)
				continue
			}
		}
		sim.Guard("r5.decoded-value-crashes-encoder", func() { mc.MarshalBinary() })
		if mc.Payload != nil {
			dc.hasPl = true
			if pp, ok := mc.Payload.(*lorawan.ProprietaryMACCommandPayload); ok {
				dc.isProp = true
				dc.raw = append([]byte(nil), pp.Bytes...)
			} else {
				c, ok := spec.FromLibCmd(up, mc)
				dc.typeOK = ok
				dc.f = c.F
			}
		}
		out = append(out, dc)
	}
	return out
}

// ownerWriteCmds: the commands a decode handed out are the caller's; one time
// in three it answers them in place (a request turned into its answer: same
// CID, the answer's payload), relabels them or overwrites proprietary bytes.
// What later decodes return must not depend on it.
func ownerWriteCmds(pls []lorawan.Payload, r *sim.Rand) {
	if r.Intn(3) != 0 {
		return
	}
	simrt.Count(cOwnerWrite)
	for _, p := range pls {
		mc, ok := p.(*lorawan.MACCommand)
		if !ok {
			continue
		}
		if pp, ok := mc.Payload.(*lorawan.ProprietaryMACCommandPayload); ok {
			if pp != nil {
				for i := range pp.Bytes {
					pp.Bytes[i] ^= 0xff
				}
			}
			continue
		}
		switch r.Intn(3) {
		case 0:
			mc.Payload = &lorawan.LinkCheckAnsPayload{Margin: 7, GwCnt: 1}
		case 1:
			mc.Payload = nil
			mc.CID = lorawan.CID(0x7f)
		default:
			mc.Payload = &lorawan.DevStatusAnsPayload{Battery: 200, Margin: -3}
		}
	}
}

func codec(h *history, id, n int, sub uint64) {
	r := sim.NewRand(sub)
	for i := 0; i < n; i++ {
		if simrt.Dead() {
			return
		}
		sim.Op()
		up := r.Intn(2) == 0
		switch k := r.Intn(10); {
		case k < 3:
			decodeFOpts(h, id, r, up)
		case k < 5:
			decodeFRM(h, id, r, up)
		case k < 6:
			frameRoundTrip(h, id, r, up)
		case k < 8:
			getSize(h, id, r, up)
		default:
			switch x := r.Intn(6); {
			case x == 0:
				resolution(r)
			case x == 1:
				wildFrame(r, up)
			default:
				losslessOrError(r, up)
			}
		}
	}
}

func decodeFOpts(h *history, id int, r *sim.Rand, up bool) {
	g := genFor(up)
	max := 1 + r.Intn(15)
	if r.Intn(4) == 0 {
		max = 15
	}
	cs := g.GenCmds(r, max, 15)
	stream, ok := encodeStream(h, id, cs)
	if !ok || len(stream) == 0 {
		return
	}
	if len(stream) == 15 {
		simrt.Count(cFull15)
	}
	truth := cs
	if r.Intn(6) == 0 && len(stream) > 1 {
		stream = stream[:len(stream)-1] // truncated tail: decoder must report, not invent
		truth = nil
	}
	notePropr(stream)
	mt := lorawan.UnconfirmedDataDown
	if up {
		mt = lorawan.UnconfirmedDataUp
	}
	phy := lorawan.PHYPayload{MHDR: lorawan.MHDR{MType: mt}, MACPayload: &lorawan.MACPayload{
		FHDR: lorawan.FHDR{FOpts: []lorawan.Payload{&lorawan.DataPayload{Bytes: append([]byte(nil), stream...)}}}}}
	op := decOp{up: up, stream: stream, where: "FOpts", truth: truth}
	op.inv = simrt.Tick()
	err := phy.DecodeFOptsToMACCommands()
	op.ret = simrt.Tick()
	op.err = err != nil
	if err == nil {
		op.cmds = recordDecoded(up, phy.MACPayload.(*lorawan.MACPayload).FHDR.FOpts)
		ownerWriteCmds(phy.MACPayload.(*lorawan.MACPayload).FHDR.FOpts, r)
	}
	h.decs[id] = append(h.decs[id], op)
	simrt.Count(cDecodes)
	simrt.Trace(evDecode, uint64(len(stream)), uint64(len(op.cmds)))
}

func notePropr(stream []byte) {
	for _, b := range stream {
		if b >= 0x80 && b < 0x84 {
			simrt.Count(cPropInStream)
			return
		}
	}
}

func decodeFRM(h *history, id int, r *sim.Rand, up bool) {
	g := genFor(up)
	max := 1 + r.Intn(60)
	if r.Intn(5) == 0 {
		max = 242
	}
	cs := g.GenCmds(r, max, 200)
	stream, ok := encodeStream(h, id, cs)
	if !ok || len(stream) == 0 {
		return
	}
	if len(stream) > 200 {
		simrt.Count(cLong)
	}
	notePropr(stream)
	mt := lorawan.ConfirmedDataDown
	if up {
		mt = lorawan.ConfirmedDataUp
	}
	port := uint8(0)
	phy := lorawan.PHYPayload{MHDR: lorawan.MHDR{MType: mt}, MACPayload: &lorawan.MACPayload{
		FPort: &port, FRMPayload: []lorawan.Payload{&lorawan.DataPayload{Bytes: append([]byte(nil), stream...)}}}}
	op := decOp{up: up, stream: stream, where: "FRMPayload", truth: cs}
	op.inv = simrt.Tick()
	err := phy.DecodeFRMPayloadToMACCommands()
	op.ret = simrt.Tick()
	op.err = err != nil
	if err == nil {
		op.cmds = recordDecoded(up, phy.MACPayload.(*lorawan.MACPayload).FRMPayload)
		ownerWriteCmds(phy.MACPayload.(*lorawan.MACPayload).FRMPayload, r)
	}
	h.decs[id] = append(h.decs[id], op)
	simrt.Count(cDecodes)
	simrt.Trace(evDecode, uint64(len(stream)), uint64(len(op.cmds)))
}

// frameRoundTrip pushes commands through a whole (plaintext) frame:
// value -> MarshalBinary -> UnmarshalBinary -> decode.
func frameRoundTrip(h *history, id int, r *sim.Rand, up bool) {
	g := genFor(up)
	f := spec.GenFrame(r, up, [4]byte{1, 2, 3, byte(id)}, uint32(r.Intn(1<<16)), g, 242)
	phy := f.ToLib()
	hasCmds := len(f.FOpts) > 0 || len(f.FRMCmds) > 0
	// half of the frames with FOpts travel the LoRaWAN 1.1 way: FOpts
	// encrypted by the sender, decrypted by the receiver before decoding
	encFOpts := len(f.FOpts) > 0 && r.Intn(2) == 0
	var encKey lorawan.AES128Key
	r.Fill(encKey[:])
	var err error
	if encFOpts {
		simrt.Count(cEncFOpts)
		err = phy.EncryptFOpts(encKey)
	}
	var b []byte
	if err == nil {
		b, err = phy.MarshalBinary()
	}
	if err != nil {
		// a frame that carries a valid command sequence must encode; a frame
		// without commands that fails to encode is another property's matter
		if hasCmds {
			// attribute the refusal to the command that is refused on its own, if any
			all := append(append([]spec.Cmd(nil), f.FOpts...), f.FRMCmds...)
			if _, ok := encodeStream(h, id, all); ok {
				// (is it the commands, or something about the frame itself? the
				// same frame without its commands decides)
				bare := f
				bare.FOpts, bare.FRMCmds = nil, nil
				if bare.HasPort && bare.FPort == 0 {
					bare.HasPort = false
				}
				if _, berr := bare.ToLib().MarshalBinary(); berr != nil {
					simrt.Count(cNotJudged)
				} else {
					simrt.Report("pipe.marshal", fmt.Sprintf("frame with spec-valid MAC commands %v refused although each command encodes and the same frame without commands is taken: %v", f, err))
				}
			}
		} else {
			simrt.Count(cNotJudged)
		}
		return
	}
	var rx lorawan.PHYPayload
	if err := rx.UnmarshalBinary(append([]byte(nil), b...)); err != nil {
		if hasCmds {
			simrt.Report("pipe.unmarshal", fmt.Sprintf("frame with MAC commands %v (%x) refused: %v", f, b, err))
		} else {
			simrt.Count(cNotJudged)
		}
		return
	}
	mp, okMP := rx.MACPayload.(*lorawan.MACPayload)
	if !okMP {
		simrt.Count(cNotJudged)
		return
	}
	if encFOpts {
		if err := rx.EncryptFOpts(encKey); err != nil { // the key stream is an involution
			simrt.Count(cNotJudged)
			return
		}
	}
	simrt.Count(cPipes)
	rawOf := func(pls []lorawan.Payload) ([]byte, bool) {
		if len(pls) != 1 {
			return nil, false
		}
		dp, ok := pls[0].(*lorawan.DataPayload)
		if !ok {
			return nil, false
		}
		return append([]byte(nil), dp.Bytes...), true
	}
	if len(f.FOpts) > 0 {
		stream, okS := rawOf(mp.FHDR.FOpts)
		if !okS {
			if len(mp.FHDR.FOpts) == 0 {
				simrt.Report("r2.framing:frame.FOpts", fmt.Sprintf("frame sent with FOpts %v decodes without any FOpts", f.FOpts))
			} else {
				simrt.Count(cNotJudged) // another representation of undecoded FOpts than one raw payload: not judged
			}
			return
		}
		op := decOp{up: up, stream: stream, where: "frame.FOpts", truth: f.FOpts}
		op.inv = simrt.Tick()
		err := rx.DecodeFOptsToMACCommands()
		op.ret = simrt.Tick()
		op.err = err != nil
		if err == nil {
			op.cmds = recordDecoded(up, mp.FHDR.FOpts)
		}
		h.decs[id] = append(h.decs[id], op)
		simrt.Count(cDecodes)
	}
	if f.HasPort && f.FPort == 0 && len(f.FRMCmds) > 0 {
		stream, okS := rawOf(mp.FRMPayload)
		if !okS {
			if len(mp.FRMPayload) == 0 {
				simrt.Report("r2.framing:frame.FRMPayload", fmt.Sprintf("frame sent with port-0 commands %v decodes without any FRMPayload", f.FRMCmds))
			} else {
				simrt.Count(cNotJudged)
			}
			return
		}
		op := decOp{up: up, stream: stream, where: "frame.FRMPayload", truth: f.FRMCmds}
		op.inv = simrt.Tick()
		err := rx.DecodeFRMPayloadToMACCommands()
		op.ret = simrt.Tick()
		op.err = err != nil
		if err == nil {
			op.cmds = recordDecoded(up, mp.FRMPayload)
		}
		h.decs[id] = append(h.decs[id], op)
		simrt.Count(cDecodes)
	}
	simrt.Trace(evPipe, uint64(len(b)), 0)
}

func getSize(h *history, id int, r *sim.Rand, up bool) {
	var cid byte
	switch k := r.Intn(10); {
	case k < 6:
		cid = 0x80 + byte(r.Intn(4))
	case k < 8:
		cid = byte(r.Intn(0x21))
	default:
		cid = byte(r.Intn(256))
	}
	op := getOp{client: id + 1, up: up, cid: cid}
	op.inv = simrt.Tick()
	p, n, err := lorawan.GetMACPayloadAndSize(up, lorawan.CID(cid))
	op.ret = simrt.Tick()
	op.found = err == nil
	op.size = n
	if p != nil {
		op.typ = fmt.Sprintf("%T", p)
	}
	h.gets[id] = append(h.gets[id], op)
	simrt.Count(cGets)
	simrt.Trace(evGet, uint64(cid), uint64(n))
}

// resolution is the "to wire resolution" clause of R5 for the one payload
// whose Go type is finer than the wire: a DeviceTimeAns duration with
// arbitrary nanoseconds must come back within one 1/256 s step.
func resolution(r *sim.Rand) {
	sec := int64(r.Intn(1 << 31))
	var ns int64
	switch r.Intn(4) {
	case 0:
		ns = 999999999 - int64(r.Intn(4000000)) // just below the next second
	case 1:
		ns = int64(r.Intn(256))*3906250 + int64(r.Intn(3906250))
	case 2:
		ns = int64(r.Intn(256)) * 3906250 // exactly on the wire's raster
	default:
		ns = int64(r.Intn(1000000000))
	}
	d := time.Duration(sec)*time.Second + time.Duration(ns)
	mc := &lorawan.MACCommand{CID: lorawan.DeviceTimeAns, Payload: &lorawan.DeviceTimeAnsPayload{TimeSinceGPSEpoch: d}}
	b, err := mc.MarshalBinary()
	simrt.Count(cResolution)
	if err != nil {
		if ns%3906250 != 0 {
			// an encoder may refuse what the 1/256 s field cannot carry exactly
			// instead of rounding it (lossless-or-error): counted
			simrt.Count(cNotJudged)
			return
		}
		simrt.Report("r5.rejected-valid:DeviceTimeAns", fmt.Sprintf("in-range duration %v refused: %v", d, err))
		return
	}
	var rx lorawan.MACCommand
	if err := rx.UnmarshalBinary(false, b); err != nil {
		simrt.Report("r5.undecodable:DeviceTimeAns", err.Error())
		return
	}
	got := rx.Payload.(*lorawan.DeviceTimeAnsPayload).TimeSinceGPSEpoch
	diff := got - d
	if diff < 0 {
		diff = -diff
	}
	if diff >= 3906250 {
		simrt.Report("r5.lossy:DeviceTimeAns", fmt.Sprintf("duration %v (%d ns) encoded without error to %x but decodes to %v: off by %v, more than the 1/256 s wire resolution", d, int64(d), b, got, diff))
	}
}

// wildFrame is R5 at the level of a frame: a sequence of commands of which
// one may carry out-of-range fields is put into FOpts or a port-0 FRMPayload.
// Serialising the frame either reports an error or produces bytes that decode
// into exactly that sequence - a command that cannot be encoded is never
// silently left out or turned into another one.
func wildFrame(r *sim.Rand, up bool) {
	ds := spec.DescsDir(up)
	n := 2 + r.Intn(3)
	budget := 15
	port0 := r.Intn(2) == 0
	if port0 {
		// port 0 takes long sequences
		n = 2 + r.Intn(11)
		budget = 200
	}
	var cmds []spec.Cmd
	wildAt := r.Intn(n)
	for i := 0; i < n; i++ {
		d := ds[r.Intn(len(ds))]
		if 1+d.Size > budget {
			continue
		}
		var c spec.Cmd
		if i == wildAt && d.Size > 0 {
			c = d.GenWildCmd(r)
			if back, ok := spec.FromLibCmd(up, spec.ToLibCmd(c)); !ok || !back.Equal(c) {
				c = d.GenCmd(r) // outside the Go type domain: says nothing
			}
		} else {
			c = d.GenCmd(r)
		}
		cmds = append(cmds, c)
		budget -= 1 + d.Size
	}
	if len(cmds) < 2 {
		return
	}
	mt := lorawan.UnconfirmedDataDown
	if up {
		mt = lorawan.UnconfirmedDataUp
	}
	mp := &lorawan.MACPayload{FHDR: lorawan.FHDR{DevAddr: lorawan.DevAddr{9, 9, 9, 9}, FCnt: uint32(r.Intn(1 << 16))}}
	where := "frame.FOpts"
	if port0 {
		where = "frame.FRMPayload"
		p0 := uint8(0)
		mp.FPort = &p0
		for _, c := range cmds {
			mp.FRMPayload = append(mp.FRMPayload, spec.ToLibCmd(c))
		}
	} else {
		for _, c := range cmds {
			mp.FHDR.FOpts = append(mp.FHDR.FOpts, spec.ToLibCmd(c))
		}
	}
	phy := lorawan.PHYPayload{MHDR: lorawan.MHDR{MType: mt, Major: lorawan.LoRaWANR1}, MACPayload: mp}
	simrt.Count(cWildFrame)
	b, err := phy.MarshalBinary()
	if err != nil {
		simrt.Count(cWildFrameRefused)
		return
	}
	var rx lorawan.PHYPayload
	if err := rx.UnmarshalBinary(append([]byte(nil), b...)); err != nil {
		simrt.Report("r5.undecodable:"+where, fmt.Sprintf("frame with commands %v serialised without error to %x which the decoder refuses: %v", cmds, b, err))
		return
	}
	rmp, ok := rx.MACPayload.(*lorawan.MACPayload)
	if !ok {
		return
	}
	var pls []lorawan.Payload
	if port0 {
		err = rx.DecodeFRMPayloadToMACCommands()
		pls = rmp.FRMPayload
	} else {
		err = rx.DecodeFOptsToMACCommands()
		pls = rmp.FHDR.FOpts
	}
	if err != nil {
		simrt.Report("r5.undecodable:"+where, fmt.Sprintf("frame with commands %v serialised without error to %x whose command stream does not decode: %v", cmds, b, err))
		return
	}
	got, ok := spec.FromLibPayloads(up, pls)
	same := ok && len(got) == len(cmds)
	for i := 0; same && i < len(cmds); i++ {
		same = got[i].Equal(cmds[i])
	}
	if !same {
		simrt.Report("r5.lossy:"+where, fmt.Sprintf("frame with commands %v serialised without error to %x but decodes to %v", cmds, b, got))
	}
}

// losslessOrError is R5: encode either fails or round-trips; spec-valid
// values must be accepted.
func losslessOrError(r *sim.Rand, up bool) {
	ds := spec.DescsDir(up)
	d := ds[r.Intn(len(ds))]
	if d.Size == 0 {
		return
	}
	var c spec.Cmd
	wild := r.Intn(5) < 2
	if wild {
		c = d.GenWildCmd(r)
	} else {
		c = d.GenCmd(r)
	}
	inSpec := d.InSpec(c)
	if !inSpec {
		simrt.Count(cR5Wild)
	}
	simrt.Count(cR5)
	mc := spec.ToLibCmd(c)
	// the conversion into the library's Go types must itself be lossless,
	// otherwise the value is outside the type domain and says nothing
	if back, ok := spec.FromLibCmd(up, mc); !ok || !back.Equal(c) {
		return
	}
	b, err := mc.MarshalBinary()
	simrt.Trace(evR5, uint64(d.CID), uint64(len(b)))
	if err != nil {
		simrt.Count(cR5Rejected)
		if inSpec {
			simrt.Report(rejectedSig(c), fmt.Sprintf("spec-valid value %v refused by the encoder: %v", c, err))
		}
		return
	}
	if len(b) != 1+d.Size {
		simrt.Report("r4.size:"+d.Name, fmt.Sprintf("%v encodes to %d bytes, table says %d", c, len(b), 1+d.Size))
		return
	}
	var rx lorawan.MACCommand
	if err := rx.UnmarshalBinary(up, b); err != nil {
		simrt.Report("r5.undecodable:"+d.Name, fmt.Sprintf("%v encoded to %x which the decoder refuses: %v", c, b, err))
		return
	}
	got, ok := spec.FromLibCmd(up, &rx)
	if !ok || !got.Equal(c) {
		simrt.Report("r5.lossy:"+d.Name, fmt.Sprintf("%v encoded without error to %x but decodes to %v", c, b, got))
		return
	}
	if inSpec {
		// independent decoder agrees on in-spec values
		// (bit-exactness against the format table is C06's subject: counted only)
		f, ok := spec.DecodeSpec(up, d.CID, b[1:])
		if !ok || !(spec.Cmd{Up: up, CID: d.CID, F: f}).Equal(c) {
			simrt.Count(cNotJudged)
		}
	}
}

// ---- post-run checks ----

type regInput struct {
	kind int // 0 register, 1 get
	up   bool
	cid  byte
	size int
}
type regOutput struct {
	err   bool
	found bool
	size  int
}

var regModel = porcupine.Model{
	Partition: func(history []porcupine.Operation) [][]porcupine.Operation {
		idx := map[int]int{}
		var out [][]porcupine.Operation
		for _, op := range history {
			in := op.Input.(regInput)
			k := int(in.cid) | dirIdx(in.up)<<8
			i, ok := idx[k]
			if !ok {
				i = len(out)
				idx[k] = i
				out = append(out, nil)
			}
			out[i] = append(out[i], op)
		}
		return out
	},
	Init: func() interface{} { return -2 },
	Step: func(state, input, output interface{}) (bool, interface{}) {
		st := state.(int)
		in := input.(regInput)
		o := output.(regOutput)
		if st == -2 {
			st = initialSize(in.up, in.cid)
		}
		if in.kind == 0 {
			if in.cid < 0x80 {
				// the standard range is not registrable: an error or a silent
				// no-op, but never a change
				return true, st
			}
			// whether a registry takes a given size is not in the statement (one
			// that refuses sizes no frame can carry, or size 0, conforms): a
			// refused registration changes nothing, an accepted one sets the size
			if o.err || in.size == 0 {
				return true, st
			}
			return true, in.size
		}
		if in.cid < 0x80 && initialSize(in.up, in.cid) < 0 && spec.Desc(in.up, in.cid) == nil {
			// a CID this harness has no description of (a library may define
			// commands the table does not know): not judged
			return true, st
		}
		if st < 0 {
			// not registered: "unknown", or a payload-less entry
			return !o.found || o.size == 0, st
		}
		return o.found && o.size == st, st
	},
	Equal: func(a, b interface{}) bool { return a.(int) == b.(int) },
}

func check(h *history) {
	// merge the operators' registrations in order of completion
	for _, rs := range h.regsBy {
		h.regs = append(h.regs, rs...)
	}
	for i := 1; i < len(h.regs); i++ {
		for j := i; j > 0 && h.regs[j-1].ret > h.regs[j].ret; j-- {
			h.regs[j-1], h.regs[j] = h.regs[j], h.regs[j-1]
		}
	}
	// R1: linearizability of Register / GetMACPayloadAndSize
	var ops []porcupine.Operation
	for _, r := range h.regs {
		ops = append(ops, porcupine.Operation{ClientId: 100 + r.by, Input: regInput{0, r.up, r.cid, r.size}, Call: r.inv, Output: regOutput{err: r.err}, Return: r.ret})
	}
	for _, gs := range h.gets {
		for _, g := range gs {
			ops = append(ops, porcupine.Operation{ClientId: g.client, Input: regInput{1, g.up, g.cid, 0}, Call: g.inv, Output: regOutput{found: g.found, size: g.size}, Return: g.ret})

		}
	}
	simrt.CountN(cHistOps, int64(len(ops)))
	if len(ops) > 0 {
		switch porcupine.CheckOperationsTimeout(regModel, ops, 10*time.Second) {
		case porcupine.Ok:
			simrt.Count(cPorcOK)
		case porcupine.Unknown:
			simrt.Count(cPorcUnknown)
		case porcupine.Illegal:
			simrt.Count(cPorcIllegal)
			simrt.Report("r1.linearizability", "registry history is not linearizable: "+describe(h))
		}
	}

	// encoder refusals of proprietary commands
	for _, rs := range h.refusals {
		for _, e := range rs {
			ps := possibleSizes(h, e.up, e.cid, e.inv, e.ret)
			other := possibleSizes(h, !e.up, e.cid, e.inv, e.ret)
			if len(ps) == 1 && ps[0] == e.n && e.n > 0 && len(other) == 1 && (other[0] == e.n || other[0] == 0) {
				simrt.Report("r5.rejected-valid:Proprietary", fmt.Sprintf("proprietary command 0x%02x (up=%v) with %d payload bytes refused (%s) although the registry held exactly that size for this direction during the call", e.cid, e.up, e.n, e.msg))
			} else {
				simrt.Count(cNotJudged)
			}
		}
	}
	// R2/R3: stream framing
	nontrivial := false
	for _, ds := range h.decs {
		for _, d := range ds {
			if checkDecode(h, d) {
				nontrivial = true
			}
		}
	}
	if nontrivial {
		simrt.Count(cNontrivial)
	}
}

func describe(h *history) string {
	s := ""
	for _, r := range h.regs {
		s += fmt.Sprintf("[%d,%d] Register(up=%v,0x%02x,%d)->err=%v; ", r.inv, r.ret, r.up, r.cid, r.size, r.err)
	}
	for _, gs := range h.gets {
		for _, g := range gs {
			s += fmt.Sprintf("[%d,%d] Get(up=%v,0x%02x)->(%v,%d); ", g.inv, g.ret, g.up, g.cid, g.found, g.size)
		}
	}
	if len(s) > 1500 {
		s = s[:1500] + "..."
	}
	return s
}

// possibleSizes returns the set of payload sizes the model registry held for
// (up,cid) at some point of [inv,ret], and whether a registration affecting
// that direction overlapped the interval.
func possibleSizes(h *history, up bool, cid byte, inv, ret int64) []int {
	cur := initialSize(up, cid)
	var extra []int
	for _, r := range h.regs {
		if r.up != up || r.cid != cid || r.cid < 0x80 || r.size == 0 || r.err {
			continue
		}
		if r.ret < inv {
			cur = r.size
		} else if r.inv < ret {
			extra = append(extra, r.size)
		}
	}
	if cur < 0 {
		cur = 0
	}
	out := []int{cur}
	for _, e := range extra {
		dup := false
		for _, o := range out {
			if o == e {
				dup = true
			}
		}
		if !dup {
			out = append(out, e)
		}
	}
	return out
}

func overlapsReg(h *history, up bool, inv, ret int64) bool {
	for _, r := range h.regs {
		if r.up == up && r.cid >= 0x80 && r.size != 0 && r.inv < ret && r.ret > inv {
			return true
		}
	}
	return false
}

// canTruncate reports whether some choice of possible sizes makes the stream
// end inside a command (positions reachable by complete commands are computed
// once each: the possible sizes at a position do not depend on the path).
func canTruncate(h *history, d decOp) bool {
	n := len(d.stream)
	reach := make([]bool, n+1)
	reach[0] = true
	for i := 0; i < n; i++ {
		if !reach[i] {
			continue
		}
		for _, sz := range possibleSizes(h, d.up, d.stream[i], d.inv, d.ret) {
			if i+1+sz > n {
				return true
			}
			reach[i+1+sz] = true
		}
	}
	return false
}

// framedAsGenerated: the stream, framed with sizes the registry held during
// the decode, can be read the way it was generated (it is a sequence of
// commands for this decode). After a registration that re-frames it the rest
// is arbitrary bytes, and a decoder that validates payloads may refuse them.
func framedAsGenerated(h *history, d decOp) bool {
	if d.truth == nil {
		return false
	}
	i := 0
	for _, c := range d.truth {
		if i >= len(d.stream) || d.stream[i] != c.CID {
			return false
		}
		n := spec.WireSize(c) - 1
		ok := false
		for _, sz := range possibleSizes(h, d.up, c.CID, d.inv, d.ret) {
			if sz == n {
				ok = true
			}
		}
		if !ok {
			return false
		}
		i += 1 + n
	}
	return i == len(d.stream)
}

// hasUnknownCID: some complete framing of the stream contains a CID that is
// neither a standard command of that direction nor registered: a decoder may
// report such a stream (it is not a sequence of commands).
func hasUnknownCID(h *history, d decOp) bool {
	n := len(d.stream)
	reach := make([]bool, n+1)
	reach[0] = true
	for i := 0; i < n; i++ {
		if !reach[i] {
			continue
		}
		cid := d.stream[i]
		known := spec.Desc(d.up, cid) != nil
		if !known {
			for _, r := range h.regs {
				if r.up == d.up && r.cid == cid && r.cid >= 0x80 && r.size != 0 && !r.err && r.ret < d.inv {
					known = true
				}
			}
		}
		if !known {
			return true
		}
		for _, sz := range possibleSizes(h, d.up, cid, d.inv, d.ret) {
			if i+1+sz <= n {
				reach[i+1+sz] = true
			}
		}
	}
	return false
}

// checkDecode judges one decode against the model; it returns true when a
// registration was in flight during the decode (a non-trivial case).
func checkDecode(h *history, d decOp) bool {
	inflight := overlapsReg(h, d.up, d.inv, d.ret)
	if inflight {
		simrt.Count(cRegInDecode)
	}
	sig := "r2.framing:" + d.where
	if d.err {
		simrt.Count(cDecodeErr)
		if !canTruncate(h, d) && !hasUnknownCID(h, d) && framedAsGenerated(h, d) {
			simrt.Report(sig, fmt.Sprintf("decoder reported an error for stream %x (up=%v) although every registered size frames it completely", d.stream, d.up))
		}
		return inflight
	}
	i := 0
	// aligned: so far the stream was framed exactly the way it was generated
	aligned := d.truth != nil
	for k, c := range d.cmds {
		if aligned && (k >= len(d.truth) || d.truth[k].CID != c.cid) {
			aligned = false
		}
		if c.cid < 0x80 && spec.Desc(d.up, c.cid) == nil && c.hasPl {
			// a command this harness has no description of: the rest of the stream is not judged
			simrt.Count(cNotJudged)
			return inflight
		}
		if !c.typeOK {
			simrt.Report(sig, fmt.Sprintf("stream %x (up=%v): decoded element %d has an unexpected Go type", d.stream, d.up, k))
			return inflight
		}
		if i >= len(d.stream) {
			simrt.Report(sig, fmt.Sprintf("stream %x (up=%v): decoder produced %d commands, more than the stream holds", d.stream, d.up, len(d.cmds)))
			return inflight
		}
		if c.cid != d.stream[i] {
			simrt.Report(sig, fmt.Sprintf("stream %x (up=%v): command %d has CID 0x%02x, stream has 0x%02x at offset %d", d.stream, d.up, k, c.cid, d.stream[i], i))
			return inflight
		}
		var n int
		switch {
		case c.isProp:
			n = len(c.raw)
		case c.hasPl:
			n = spec.StdSize(d.up, c.cid)
		default:
			n = 0
		}
		ok := false
		ps := possibleSizes(h, d.up, c.cid, d.inv, d.ret)
		for _, p := range ps {
			if p == n {
				ok = true
			}
		}
		if !ok {
			simrt.Report(sig, fmt.Sprintf("stream %x (up=%v): command %d (CID 0x%02x) framed with %d payload bytes, registry held %v during the decode", d.stream, d.up, k, c.cid, n, ps))
			return inflight
		}
		if i+1+n > len(d.stream) {
			simrt.Report(sig, fmt.Sprintf("stream %x (up=%v): command %d overruns the stream", d.stream, d.up, k))
			return inflight
		}
		pl := d.stream[i+1 : i+1+n]
		if c.isProp {
			if c.cid < 0x80 {
				simrt.Report(sig, fmt.Sprintf("stream %x (up=%v): standard CID 0x%02x decoded as proprietary payload", d.stream, d.up, c.cid))
				return inflight
			}
			if !bytes.Equal(c.raw, pl) {
				simrt.Report(sig, fmt.Sprintf("stream %x (up=%v): proprietary command %d payload %x, stream has %x", d.stream, d.up, k, c.raw, pl))
				return inflight
			}
			// "decodes into exactly that sequence": the bytes the command was
			// generated with, while the stream is framed the way it was generated
			if aligned && k < len(d.truth) && d.truth[k].CID == c.cid && len(d.truth[k].Raw) == n && !bytes.Equal(c.raw, d.truth[k].Raw) {
				simrt.Report("r2.value:Proprietary", fmt.Sprintf("stream %x (up=%v): proprietary command %d (CID 0x%02x) was encoded from %x and decodes to %x", d.stream, d.up, k, c.cid, d.truth[k].Raw, c.raw))
				return inflight
			}
		} else if c.hasPl {
			// values are compared only for canonical payload bytes (reserved
			// bits zero, in-range fields): after a legitimate re-framing the
			// rest of a stream is arbitrary bytes, and how reserved bits of
			// arbitrary bytes decode is property C06's business, not C07's
			// "decodes into exactly that sequence": when the stream was framed the
			// way it was generated, the decoded values are the generated values
			if aligned && k < len(d.truth) && d.truth[k].CID == c.cid && spec.WireSize(d.truth[k]) == 1+n {
				if !(spec.Cmd{F: d.truth[k].F}).Equal(spec.Cmd{F: c.f}) {
					simrt.Report("r2.value:"+cmdName(spec.Cmd{Up: d.up, CID: c.cid}), fmt.Sprintf("stream %x (up=%v): command %d (CID 0x%02x) was encoded from %v and decodes to %v", d.stream, d.up, k, c.cid, d.truth[k].F, c.f))
					return inflight
				}
			}
			// (agreement with the bit-layout table on canonical bytes is C06's subject: counted only)
			if f, ok := spec.DecodeSpec(d.up, c.cid, pl); ok && bytes.Equal(spec.EncodeSpec(spec.Cmd{Up: d.up, CID: c.cid, F: f}), pl) && !(spec.Cmd{F: f}).Equal(spec.Cmd{F: c.f}) {
				simrt.Count(cNotJudged)
			}
		}
		if aligned && spec.WireSize(d.truth[k]) != 1+n {
			aligned = false
		}
		i += 1 + n
	}
	if i != len(d.stream) && canTruncate(h, d) {
		// a stream that ends inside a command (cut, or re-framed by a
		// registration) is not a sequence of commands: a decoder may report it
		// or hand back the complete commands in front of the partial one
		simrt.Count(cNotJudged)
	} else if i != len(d.stream) {
		simrt.Report(sig, fmt.Sprintf("stream %x (up=%v): decoder consumed %d of %d bytes (%d commands)", d.stream, d.up, i, len(d.stream), len(d.cmds)))
	}
	return inflight
}
