// Package pipe holds the sender and receiver call sequences of the real
// library that several worlds share (the "history" of property C05):
//
//	sender:   EncryptFOpts (1.1) -> EncryptFRMPayload -> Set*DataMIC -> MarshalBinary
//	receiver: UnmarshalBinary -> set FCnt -> Validate*DataMIC -> DecryptFOpts (1.1) /
//	          DecodeFOptsToMACCommands (1.0) -> DecryptFRMPayload
package pipe

import (
	"fmt"

	"github.com/brocaar/lorawan"

	"verif/sim"
	"verif/spec"
)

// Session is one side's view of a device session.
type Session struct {
	V11      bool
	DevAddr  [4]byte
	NwkSEnc  spec.Key // 1.0: NwkSKey
	SNwkSInt spec.Key // 1.0: NwkSKey
	FNwkSInt spec.Key // 1.0: NwkSKey
	AppS     spec.Key
}

// NewSession draws a session from r.
func NewSession(r *sim.Rand, v11 bool) Session {
	var s Session
	s.V11 = v11
	r.Fill(s.DevAddr[:])
	r.Fill(s.AppS[:])
	r.Fill(s.FNwkSInt[:])
	if v11 {
		r.Fill(s.SNwkSInt[:])
		r.Fill(s.NwkSEnc[:])
		// keys are 128 arbitrary bits: now and then a 1.1 session has two equal
		// keys, or a key of all zeros / all ones (a provisioning default)
		switch r.Intn(16) {
		case 0:
			s.SNwkSInt = s.FNwkSInt
		case 1:
			s.NwkSEnc = s.FNwkSInt
		case 2:
			s.SNwkSInt = spec.Key{}
		case 3:
			s.FNwkSInt = spec.Key{}
		case 4:
			for i := range s.SNwkSInt {
				s.SNwkSInt[i] = 0xff
			}
		}
	} else {
		s.SNwkSInt = s.FNwkSInt
		s.NwkSEnc = s.FNwkSInt
	}
	return s
}

// TxParams are the per-frame MIC parameters of LoRaWAN 1.1.
type TxParams struct {
	ConfFCnt uint32
	TxDR     uint8
	TxCh     uint8
}

func (s *Session) MACVersion() lorawan.MACVersion {
	if s.V11 {
		return lorawan.LoRaWAN1_1
	}
	return lorawan.LoRaWAN1_0
}

// MICParams converts to the spec model's parameters.
func (s *Session) MICParams(fcnt32 uint32, p TxParams) spec.DataMICParams {
	return spec.DataMICParams{V11: s.V11, FCnt32: fcnt32, ConfFCnt: p.ConfFCnt, TxDR: p.TxDR, TxCh: p.TxCh, FNwkSInt: s.FNwkSInt, SNwkSInt: s.SNwkSInt}
}

// Seal runs the sender pipeline on a plaintext frame value. stage names the
// failing step.
func Seal(s *Session, phy *lorawan.PHYPayload, p TxParams) (wire []byte, stage string, err error) {
	return SealOrder(s, phy, p, false)
}

// SealOrder is Seal with a choice of which of the two encryption steps runs
// first (both orders are legal: the steps are independent).
func SealOrder(s *Session, phy *lorawan.PHYPayload, p TxParams, frmFirst bool) (wire []byte, stage string, err error) {
	mp := phy.MACPayload.(*lorawan.MACPayload)
	uplink := phy.MHDR.MType == lorawan.UnconfirmedDataUp || phy.MHDR.MType == lorawan.ConfirmedDataUp
	key := s.AppS
	if mp.FPort != nil && *mp.FPort == 0 {
		key = s.NwkSEnc
	}
	encFOpts := func() error {
		if s.V11 {
			return phy.EncryptFOpts(lorawan.AES128Key(s.NwkSEnc))
		}
		return nil
	}
	if frmFirst {
		if err := phy.EncryptFRMPayload(lorawan.AES128Key(key)); err != nil {
			return nil, "EncryptFRMPayload", err
		}
		if err := encFOpts(); err != nil {
			return nil, "EncryptFOpts", err
		}
	} else {
		if err := encFOpts(); err != nil {
			return nil, "EncryptFOpts", err
		}
		if err := phy.EncryptFRMPayload(lorawan.AES128Key(key)); err != nil {
			return nil, "EncryptFRMPayload", err
		}
	}
	if uplink {
		if err := phy.SetUplinkDataMIC(s.MACVersion(), p.ConfFCnt, p.TxDR, p.TxCh, lorawan.AES128Key(s.FNwkSInt), lorawan.AES128Key(s.SNwkSInt)); err != nil {
			return nil, "SetUplinkDataMIC", err
		}
	} else {
		if err := phy.SetDownlinkDataMIC(s.MACVersion(), p.ConfFCnt, lorawan.AES128Key(s.SNwkSInt)); err != nil {
			return nil, "SetDownlinkDataMIC", err
		}
	}
	b, err := phy.MarshalBinary()
	if err != nil {
		return nil, "MarshalBinary", err
	}
	return b, "", nil
}

// Validate sets the full frame counter and validates the MIC.
func Validate(s *Session, phy *lorawan.PHYPayload, fcnt32 uint32, p TxParams) (bool, error) {
	mp, ok := phy.MACPayload.(*lorawan.MACPayload)
	if !ok {
		return false, fmt.Errorf("not a data frame: %T", phy.MACPayload)
	}
	mp.FHDR.FCnt = fcnt32
	uplink := phy.MHDR.MType == lorawan.UnconfirmedDataUp || phy.MHDR.MType == lorawan.ConfirmedDataUp
	if uplink {
		return phy.ValidateUplinkDataMIC(s.MACVersion(), p.ConfFCnt, p.TxDR, p.TxCh, lorawan.AES128Key(s.FNwkSInt), lorawan.AES128Key(s.SNwkSInt))
	}
	return phy.ValidateDownlinkDataMIC(s.MACVersion(), p.ConfFCnt, lorawan.AES128Key(s.SNwkSInt))
}

// Open decrypts a validated frame: FOpts then FRMPayload.
func Open(s *Session, phy *lorawan.PHYPayload) (stage string, err error) {
	return OpenOrder(s, phy, false)
}

// OpenOrder is Open with a choice of which decryption step runs first.
func OpenOrder(s *Session, phy *lorawan.PHYPayload, frmFirst bool) (stage string, err error) {
	mp, ok := phy.MACPayload.(*lorawan.MACPayload)
	if !ok {
		return "type", fmt.Errorf("not a data frame: %T", phy.MACPayload)
	}
	key := s.AppS
	if mp.FPort != nil && *mp.FPort == 0 {
		key = s.NwkSEnc
	}
	fopts := func() (string, error) {
		if s.V11 {
			return "DecryptFOpts", phy.DecryptFOpts(lorawan.AES128Key(s.NwkSEnc))
		}
		return "DecodeFOptsToMACCommands", phy.DecodeFOptsToMACCommands()
	}
	if frmFirst {
		if err := phy.DecryptFRMPayload(lorawan.AES128Key(key)); err != nil {
			return "DecryptFRMPayload", err
		}
		if st, err := fopts(); err != nil {
			return st, err
		}
		return "", nil
	}
	if st, err := fopts(); err != nil {
		return st, err
	}
	if err := phy.DecryptFRMPayload(lorawan.AES128Key(key)); err != nil {
		return "DecryptFRMPayload", err
	}
	return "", nil
}
