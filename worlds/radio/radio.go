// Package radio is world W-RADIO (property C05): 1-4 device tasks and a
// network-server task exchange data frames over a simulated radio. Every
// byte on the air is produced and consumed by the real library
// (worlds/pipe); the session logic (counters, acknowledgements, 32-bit
// counter reconstruction) is harness code written from the specification.
//
// The radio and the session layer inject: loss, duplication, reordering and
// delay, bit flips per byte class, truncation / extension, misrouting
// (DevAddr collision), reflection (wrong direction), long partitions
// (> 2^16 lost frames), device restarts with reset counters or new keys, NS
// restart from a stale snapshot, and 1.1 MIC-parameter skew.
//
// Oracle per ARRIVAL: the specification's MIC over the received bytes with
// the receiver's parameters (verif/spec) against the library's verdict, and
// content equality for unmodified, in-sync arrivals.
package radio

import (
	"bytes"
	"fmt"

	"github.com/brocaar/lorawan"

	"verif/sim"
	"verif/simrt"
	"verif/spec"
	"verif/worlds"
	"verif/worlds/pipe"
)

func init() { worlds.Register("radio", build) }

var (
	evTx   = sim.RegisterEv(500, "tx")
	evRx   = sim.RegisterEv(501, "rx")
	evSess = sim.RegisterEv(502, "session-fault")

	cNontrivial    = simrt.RegisterCounter("nontrivial")
	cSent          = simrt.RegisterCounter("op_frames_sent")
	cArrivals      = simrt.RegisterCounter("op_arrivals_judged")
	cAccepted      = simrt.RegisterCounter("probe_accepted")
	cRejected      = simrt.RegisterCounter("probe_rejected")
	cContent       = simrt.RegisterCounter("probe_content_compared")
	cUndecod       = simrt.RegisterCounter("probe_undecodable_after_corruption")
	cCollision     = simrt.RegisterCounter("probe_mic_collision")
	cRollover      = simrt.RegisterCounter("probe_fcnt16_rollover")
	cV11           = simrt.RegisterCounter("probe_lorawan11_frames")
	cAckConf       = simrt.RegisterCounter("probe_ack_with_conffcnt")
	cPort0         = simrt.RegisterCounter("probe_port0_commands")
	cFOptsEnc      = simrt.RegisterCounter("probe_encrypted_fopts")
	cBig           = simrt.RegisterCounter("probe_payload_over_200")
	cLive          = simrt.RegisterCounter("probe_liveness_frames")
	cEmptyPort0    = simrt.RegisterCounter("probe_port0_without_commands")
	cResend        = simrt.RegisterCounter("probe_application_payload_resent_under_next_counter")
	cCandidate     = simrt.RegisterCounter("probe_second_frame_counter_candidate_on_the_same_frame")
	cPiecesRefused = simrt.RegisterCounter("sender_refused_application_bytes_in_two_items_asked_again_with_one")
	cLegacyRefused = simrt.RegisterCounter("probe_frame_with_legacy_value_refused_not_judged")
	cText          = simrt.RegisterCounter("probe_frames_received_as_base64_text")

	fLoss          = simrt.RegisterCounter("fault_loss")
	fDup           = simrt.RegisterCounter("fault_duplicate")
	fDelay         = simrt.RegisterCounter("fault_long_delay_reorder")
	fFlip          = simrt.RegisterCounter("fault_bitflip")
	fFlip2         = simrt.RegisterCounter("fault_multi_bitflip")
	fTrunc         = simrt.RegisterCounter("fault_truncate")
	fExtend        = simrt.RegisterCounter("fault_extend")
	fMisroute      = simrt.RegisterCounter("fault_misroute_devaddr_collision")
	fReflect       = simrt.RegisterCounter("fault_reflected_direction")
	fPart          = simrt.RegisterCounter("fault_long_partition")
	fRestart       = simrt.RegisterCounter("fault_device_restart_counters_reset")
	fRekey         = simrt.RegisterCounter("fault_device_rekey_stale_key")
	fNSStale       = simrt.RegisterCounter("fault_ns_restart_stale_snapshot")
	fSkewConf      = simrt.RegisterCounter("fault_conffcnt_skew")
	fSkewTx        = simrt.RegisterCounter("fault_txdr_txch_skew")
	fNearMax       = simrt.RegisterCounter("fault_counter_near_rollover_start")
	cManyDev       = simrt.RegisterCounter("op_network_with_dozens_of_sessions")
	fBlankKey      = simrt.RegisterCounter("fault_one_side_holds_a_blank_or_copied_key")
	cOperator      = simrt.RegisterCounter("fault_unrelated_registration_during_traffic")
	cMICFDisagrees = simrt.RegisterCounter("probe_cmacf_helper_disagrees_not_judged")
	cOwnDirection  = simrt.RegisterCounter("probe_reflected_frame_accepted_with_its_own_direction")
	fOneKey        = simrt.RegisterCounter("fault_single_key_mismatch")
	fVersion       = simrt.RegisterCounter("fault_mac_version_mismatch")
	fAhead         = simrt.RegisterCounter("fault_receiver_ahead_by_multiple_of_65536")
	cRejoin        = simrt.RegisterCounter("probe_resynchronised_mid_run")
	cForeignEnc    = simrt.RegisterCounter("probe_accepted_with_foreign_encryption_key")
)

// byte classes of a data frame, for corruption placement and signatures
func classify(b []byte, pos int) string {
	switch {
	case pos == 0:
		return "MHDR"
	case pos >= 1 && pos <= 4:
		return "DevAddr"
	case pos == 5:
		return "FCtrl"
	case pos == 6 || pos == 7:
		return "FCnt"
	case pos >= len(b)-4:
		return "MIC"
	}
	if len(b) < 12 {
		return "body"
	}
	fo := int(b[5] & 0x0f)
	switch {
	case pos < 8+fo:
		return "FOpts"
	case pos == 8+fo:
		return "FPort"
	default:
		return "FRMPayload"
	}
}

// side is one party's view of one device session.
type side struct {
	rxPHY        *lorawan.PHYPayload // receiver: value re-used for decoding arrivals
	appBuf       []byte              // sender: the application buffer handed to the library last time (re-used for re-sends)
	appTruth     []byte              // what that buffer held when the application filled it
	sess         pipe.Session
	fcntUp       uint32 // device: next to send; NS: last accepted (for reconstruction)
	nFCntDown    uint32 // NS: next to send; device: last accepted
	aFCntDown    uint32
	lastConfUp   uint32 // counter of the last confirmed uplink (sent by device / received by NS)
	lastConfDown uint32
}

type packet struct {
	bytes    []byte
	orig     []byte // as sent
	uplink   bool   // direction of the transmission
	dev      int    // device the sender addressed / that sent it
	toDev    int    // receiving device (downlink / reflected), -1 = NS
	truth    spec.Frame
	sender   side // sender's session at transmission time
	fcnt32   uint32
	tx       pipe.TxParams
	rxTx     pipe.TxParams // what the receiver is told (gateway metadata), may be skewed
	modified bool
	kind     string // perturbation signature component
	at       int64
	live     bool
}

type world struct {
	nDev   int
	dev    []*side // device side
	ns     []*side // NS side
	toNS   *sim.Mailbox
	toDev  []*sim.Mailbox
	toAir  *sim.Mailbox
	faults bool
	done   int
}

var doneCount int

//go:norace
func doneInc() { doneCount++ }

//go:norace
func doneGet() int { return doneCount }

//go:norace
func doneReset() { doneCount = 0 }

func build(sw *sim.World) {
	doneReset()
	for _, up := range []bool{false, true} {
		if err := lorawan.RegisterProprietaryMACCommand(up, propCID, propSize); err != nil {
			panic(err)
		}
	}
	// the parties share session state and synchronise at their blocking
	// points: sequential world, no preemption inside library calls
	simrt.ForceRunToBlock()
	w := &world{}
	w.nDev = 1 + simrt.Choose(4)
	w.faults = simrt.Choose(4) != 0
	// now and then a network with dozens of sessions (each with its own keys):
	// whatever the library keeps per key or per device address fills up
	many := simrt.Choose(40) == 1
	if many {
		w.nDev = 24 + simrt.Choose(34)
		simrt.Count(cManyDev)
	}
	r := sim.NewRand(simrt.Raw())
	w.toNS = sim.NewMailbox()
	w.toAir = sim.NewMailbox()
	for i := 0; i < w.nDev; i++ {
		s := pipe.NewSession(r, r.Intn(2) == 0)
		s.DevAddr[3] = byte(i + 1)
		d := &side{sess: s}
		switch r.Intn(5) {
		case 0:
			d.fcntUp = 0xfff0 + uint32(r.Intn(32)) // 16-bit roll-over during the run
			simrt.Count(fNearMax)
		case 1:
			d.fcntUp = 0xfffffff0
			simrt.Count(fNearMax)
		default:
			d.fcntUp = uint32(r.Intn(1 << 20))
		}
		n := &side{sess: s, fcntUp: d.fcntUp - 1, nFCntDown: uint32(r.Intn(1 << 18)), aFCntDown: uint32(r.Intn(1 << 18))}
		if r.Intn(6) == 0 {
			n.nFCntDown = 0xfffa
		}
		d.nFCntDown, d.aFCntDown = n.nFCntDown-1, n.aFCntDown-1
		w.dev = append(w.dev, d)
		w.ns = append(w.ns, n)
		w.toDev = append(w.toDev, sim.NewMailbox())
	}
	sw.Notef("W-RADIO: %d devices, faults=%v", w.nDev, w.faults)
	for i := 0; i < w.nDev; i++ {
		i := i
		n := 3 + simrt.Choose(20*sim.Scale)
		if many {
			n = 2 + simrt.Choose(3)
		}
		sub := simrt.Raw()
		sw.Spawn(fmt.Sprintf("dev%d", i), func() { device(w, i, n, sub) })
	}
	nsSub := simrt.Raw()
	sw.Spawn("ns", func() { netServer(w, nsSub) })
	airSub := simrt.Raw()
	sw.Spawn("air", func() { air(w, airSub) })
}

// ------------------------------------------------------------------- air

type pending struct {
	p  *packet
	at int64
}

// air is the radio: it applies the fault plan to every transmission and
// delivers in order of (perturbed) arrival time.
func air(w *world, sub uint64) {
	sim.HB()
	defer sim.HB()
	r := sim.NewRand(sub)
	var q []pending
	for {
		// take everything that was transmitted
		for {
			m, ok := w.toAir.TryRecv()
			if !ok {
				break
			}
			p := m.Data.(*packet)
			for _, pp := range perturb(w, r, p) {
				d := int64(1e6 + r.Intn(5e6))
				if w.faults && !p.live && r.Intn(6) == 0 {
					d += int64(r.Intn(3e9)) // long delay: overtaken by later frames
					simrt.Count(fDelay)
				}
				q = append(q, pending{pp, simrt.Now() + d})
			}
		}
		if len(q) == 0 {
			if doneGet() >= w.nDev+1 {
				return
			}
			if !pause(w.toAir.Key(), 0) {
				return
			}
			continue
		}
		// earliest delivery
		best := 0
		for i := range q {
			if q[i].at < q[best].at {
				best = i
			}
		}
		if simrt.Now() < q[best].at {
			// sleep until it is due, or until something new is transmitted
			pause(w.toAirKey(), q[best].at)
			if simrt.Dead() {
				return
			}
			continue
		}
		p := q[best].p
		q = append(q[:best], q[best+1:]...)
		if p.toDev >= 0 {
			w.toDev[p.toDev].Send(0, p)
		} else {
			w.toNS.Send(0, p)
		}
	}
}

func (w *world) toAirKey() int32 { return w.toAir.Key() }

// sleep / pause are the only points where this world switches tasks; the HB
// calls order all tasks totally (they share session state).
func sleep(d int64) bool {
	sim.HB()
	ok := simrt.Sleep(d)
	sim.HB()
	return ok
}

func pause(key int32, deadline int64) bool {
	sim.HB()
	ok := simrt.PauseOn(key, deadline)
	sim.HB()
	return ok
}

func clonePkt(p *packet) *packet {
	c := *p
	c.bytes = append([]byte(nil), p.bytes...)
	return &c
}

// perturb applies at most one transport perturbation (plus duplication).
func perturb(w *world, r *sim.Rand, p *packet) []*packet {
	if !w.faults || p.live {
		return []*packet{p}
	}
	out := []*packet{p}
	switch k := r.Intn(20); {
	case k == 0:
		simrt.Count(fLoss)
		return nil
	case k == 1:
		simrt.Count(fDup)
		out = append(out, clonePkt(p))
	case k == 2 || k == 3 || k == 4:
		pos := r.Intn(len(p.bytes))
		// bias towards the header and the MIC
		switch r.Intn(4) {
		case 0:
			pos = r.Intn(8)
		case 1:
			pos = len(p.bytes) - 1 - r.Intn(4)
		}
		bit := uint(r.Intn(8))
		p.bytes[pos] ^= 1 << bit
		p.modified = true
		p.kind = classify(p.orig, pos)
		if pos == 0 {
			switch {
			case bit <= 1:
				p.kind = "MHDR.Major"
			case bit <= 4:
				p.kind = "MHDR.RFU"
			default:
				p.kind = "MHDR.MType"
			}
		}
		if pos == 5 && bit <= 3 {
			p.kind = "FCtrl.FOptsLen"
		}
		simrt.Count(fFlip)
	case k == 5:
		n := 2 + r.Intn(3)
		for i := 0; i < n; i++ {
			p.bytes[r.Intn(len(p.bytes))] ^= 1 << uint(r.Intn(8))
		}
		p.modified = !bytes.Equal(p.bytes, p.orig)
		p.kind = "multi"
		simrt.Count(fFlip2)
	case k == 6:
		n := 1 + r.Intn(6)
		if n < len(p.bytes) {
			p.bytes = p.bytes[:len(p.bytes)-n]
			p.modified = true
			p.kind = "truncate"
			simrt.Count(fTrunc)
		}
	case k == 7:
		p.bytes = append(p.bytes, r.Bytes(1+r.Intn(5))...)
		p.modified = true
		p.kind = "extend"
		simrt.Count(fExtend)
	case k == 8 && w.nDev > 1 && !p.uplink:
		// delivered to another device (which will try its own session)
		p.toDev = (p.toDev + 1 + r.Intn(w.nDev-1)) % w.nDev
		p.kind = "misroute"
		simrt.Count(fMisroute)
	case k == 9 && p.uplink:
		// an uplink reflected to a device, which expects downlinks
		p.toDev = r.Intn(w.nDev)
		p.kind = "reflect"
		simrt.Count(fReflect)
	case k == 11 && !p.uplink:
		// a downlink picked up by a gateway and handed to the network server as if it were an uplink
		p.toDev = -1
		p.kind = "reflect-down"
		simrt.Count(fReflect)
	case k == 10 && p.uplink && p.sender.sess.V11:
		p.rxTx.TxDR ^= uint8(1 + r.Intn(15))
		if r.Intn(2) == 0 {
			p.rxTx.TxCh++
		}
		p.kind = "txskew"
		simrt.Count(fSkewTx)
	}
	return out
}

// ---------------------------------------------------------------- device

func device(w *world, id int, n int, sub uint64) {
	sim.HB()
	defer sim.HB()
	r := sim.NewRand(sub)
	d := w.dev[id]
	for k := 0; k < n+1; k++ {
		if simrt.Dead() {
			break
		}
		live := k == n
		if live {
			resync(w, id)
		}
		if w.faults && !live {
			sessionFault(w, id, r)
		}
		if !live && r.Intn(12) == 0 {
			operatorEvent(r)
		}
		sleep(int64(1e9 + r.Intn(4e9)))
		drain(w, id, r)
		sendUplink(w, id, r, live)
		// RX windows
		sleep(int64(1e9 + r.Intn(2e9)))
		drain(w, id, r)
		_ = d
	}
	// a last listen for late downlinks
	sleep(5e9)
	drain(w, id, r)
	doneInc()
	simrt.Notify(w.toNS.Key())
	simrt.Notify(w.toAir.Key())
}

// operatorEvent: somewhere in the process an operator registers a proprietary
// CID no frame of this world uses (any size, also one no frame can carry).
// Whatever the registry answers, the frames of the sessions must keep
// decoding into what was sent.
func operatorEvent(r *sim.Rand) {
	up := r.Intn(2) == 0
	cid := lorawan.CID(0xa0 + r.Intn(16))
	size := []int{1, 3, 15, 241, 255, 256, 300, 70000}[r.Intn(8)]
	simrt.Count(cOperator)
	func() {
		defer func() { recover() }() // (what the registry does with such a call is C07's subject)
		lorawan.RegisterProprietaryMACCommand(up, cid, size)
	}()
}

// resync is "faults have stopped": both sides agree on keys and counters
// again (a real network does this by a re-join; here the harness does it).
func resync(w *world, id int) {
	d, n := w.dev[id], w.ns[id]
	n.sess = d.sess
	n.fcntUp = d.fcntUp - 1
	d.nFCntDown, d.aFCntDown = n.nFCntDown-1, n.aFCntDown-1
	n.lastConfUp, d.lastConfDown = d.lastConfUp, n.lastConfDown
}

func sessionFault(w *world, id int, r *sim.Rand) {
	d, n := w.dev[id], w.ns[id]
	switch r.Intn(40) {
	case 0:
		d.fcntUp += 70000 // a burst of > 2^16 uplinks the NS never saw
		simrt.Count(fPart)
		simrt.Trace(evSess, 1, uint64(id))
	case 1:
		d.fcntUp = 0
		simrt.Count(fRestart)
		simrt.Trace(evSess, 2, uint64(id))
	case 2:
		rr := sim.NewRand(r.U64())
		ns := pipe.NewSession(rr, d.sess.V11)
		ns.DevAddr = d.sess.DevAddr
		d.sess = ns // the NS has not learned these keys
		simrt.Count(fRekey)
		simrt.Trace(evSess, 3, uint64(id))
	case 3:
		if n.fcntUp > 40 {
			n.fcntUp -= uint32(1 + r.Intn(40))
		}
		if n.nFCntDown > 40 {
			n.nFCntDown -= uint32(r.Intn(20))
		}
		simrt.Count(fNSStale)
		simrt.Trace(evSess, 4, uint64(id))
	case 4:
		d.lastConfDown += uint32(1 + r.Intn(3))
		simrt.Count(fSkewConf)
		simrt.Trace(evSess, 5, uint64(id))
	case 5:
		n.lastConfUp += uint32(1 + r.Intn(3))
		simrt.Count(fSkewConf)
		simrt.Trace(evSess, 6, uint64(id))
	case 6, 7, 8:
		// exactly ONE key differs (the NS has not learned it)
		rr := sim.NewRand(r.U64())
		switch {
		case d.sess.V11 && r.Intn(5) == 0:
			// the other side holds a "blank" or copied value for this key
			simrt.Count(fBlankKey)
			switch r.Intn(3) {
			case 0:
				n.sess.SNwkSInt = spec.Key{}
			case 1:
				n.sess.SNwkSInt = n.sess.FNwkSInt
			default:
				d.sess.SNwkSInt = d.sess.FNwkSInt
			}
		case d.sess.V11 && r.Intn(3) == 0:
			rr.Fill(d.sess.SNwkSInt[:])
		case d.sess.V11 && r.Intn(2) == 0:
			rr.Fill(d.sess.FNwkSInt[:])
		case d.sess.V11:
			rr.Fill(d.sess.NwkSEnc[:]) // MIC-neutral: frames validate, content must not be trusted
		default:
			rr.Fill(d.sess.AppS[:]) // MIC-neutral
		}
		simrt.Count(fOneKey)
		simrt.Trace(evSess, 7, uint64(id))
	case 9:
		n.sess.V11 = !n.sess.V11 // the NS believes the device speaks the other MAC version
		simrt.Count(fVersion)
		simrt.Trace(evSess, 8, uint64(id))
	case 10:
		n.fcntUp += 0x10000 * uint32(1+r.Intn(3)) // the receiver is ahead by a multiple of 2^16
		simrt.Count(fAhead)
		simrt.Trace(evSess, 9, uint64(id))
	case 11, 12, 13:
		resync(w, id) // a re-join: both sides agree again
		simrt.Count(cRejoin)
		simrt.Trace(evSess, 10, uint64(id))
	}
}

// proprietary commands registered by the main goroutine before the tasks start
const (
	propCID  = 0x91
	propSize = 2
)

func gen(up bool) spec.CmdGen {
	return spec.CmdGen{Up: up, Prop: map[byte]int{propCID: propSize}}
}

func noteFrame(f spec.Frame, s *pipe.Session) {
	if s.V11 {
		simrt.Count(cV11)
		if len(f.FOpts) > 0 {
			simrt.Count(cFOptsEnc)
		}
		if f.ACK {
			simrt.Count(cAckConf)
		}
	}
	if f.HasPort && f.FPort == 0 {
		if len(f.FRMCmds) > 0 {
			simrt.Count(cPort0)
		} else {
			simrt.Count(cEmptyPort0)
		}
	}
	if len(f.AppBytes) > 200 {
		simrt.Count(cBig)
	}
}

func sendUplink(w *world, id int, r *sim.Rand, live bool) {
	sim.Op()
	d := w.dev[id]
	f := spec.GenFrame(r, true, d.sess.DevAddr, d.fcntUp, gen(true), 242)
	tx := pipe.TxParams{ConfFCnt: d.lastConfDown, TxDR: uint8(r.Intn(16)), TxCh: uint8(r.Intn(72))}
	// the application re-sends what is (as far as it knows) still in its
	// buffer, under the next counter: the SAME slice goes into the new frame
	foptsLen := 0
	for _, c := range f.FOpts {
		foptsLen += spec.WireSize(c)
	}
	if d.appTruth != nil && f.HasPort && f.FPort > 0 && len(d.appTruth)+foptsLen <= 242 && r.Intn(3) == 0 {
		// a re-send of the previous application payload under the next counter
		f.AppBytes = append([]byte(nil), d.appTruth...)
		simrt.Count(cResend)
	} else if f.HasPort && f.FPort > 0 && len(f.AppBytes) > 0 {
		d.appTruth = append([]byte(nil), f.AppBytes...)
	}
	noteFrame(f, &d.sess)
	lib := f.ToLib()
	wire, stage, err := pipe.SealOrder(&d.sess, lib, tx, true) // the order of the statement: FRMPayload, FOpts, MIC, marshal
	if err != nil && f.InPieces() {
		// a sender that wants the application bytes in one item is within the
		// statement (which frame VALUES carry a valid frame is left open)
		simrt.Count(cPiecesRefused)
		lib = f.ToLibWhole()
		wire, stage, err = pipe.SealOrder(&d.sess, lib, tx, true)
	}
	if err != nil && !f.AllInSpec() {
		simrt.Count(cLegacyRefused)
		d.fcntUp++
		return
	}
	if err != nil {
		simrt.Report("o3.sender:"+stage, fmt.Sprintf("spec-valid uplink %v refused at %s: %v", f, stage, err))
		d.fcntUp++
		return
	}
	if f.FCnt&0xffff == 0xffff {
		simrt.Count(cRollover)
	}
	p := &packet{bytes: wire, orig: append([]byte(nil), wire...), uplink: true, dev: id, toDev: -1, truth: f, sender: *d, fcnt32: d.fcntUp, tx: tx, rxTx: tx, at: simrt.Now(), live: live}
	if f.MType == 4 {
		d.lastConfUp = d.fcntUp
	}
	d.fcntUp++
	simrt.Count(cSent)
	if live {
		simrt.Count(cLive)
	}
	simrt.Trace(evTx, uint64(id), uint64(f.FCnt))
	w.toAir.Send(0, p)
}

func drain(w *world, id int, r *sim.Rand) {
	for {
		m, ok := w.toDev[id].TryRecv()
		if !ok {
			return
		}
		receive(w, m.Data.(*packet), id, r)
	}
}

// ------------------------------------------------------------ net server

func netServer(w *world, sub uint64) {
	sim.HB()
	defer sim.HB()
	r := sim.NewRand(sub)
	for {
		if simrt.Dead() {
			break
		}
		m, ok := w.toNS.TryRecv()
		if !ok {
			if doneGet() >= w.nDev {
				break
			}
			if !pause(w.toNS.Key(), 0) {
				break
			}
			continue
		}
		p := m.Data.(*packet)
		acc := receive(w, p, -1, r)
		// answer some uplinks with a downlink (always the confirmed ones)
		if p.uplink && (acc || r.Intn(4) == 0) && (p.truth.MType == 4 || r.Intn(3) == 0) {
			sendDownlink(w, p.dev, r, acc && p.truth.MType == 4, p.live)
		}
	}
	doneInc()
	simrt.Notify(w.toAir.Key())
}

func sendDownlink(w *world, id int, r *sim.Rand, ack bool, live bool) {
	n := w.ns[id]
	f := spec.GenFrame(r, false, n.sess.DevAddr, 0, gen(false), 242)
	f.ACK = ack
	// counter: 1.0 single counter; 1.1 AFCntDown for port > 0
	useA := n.sess.V11 && f.HasPort && f.FPort > 0
	if useA {
		f.FCnt = n.aFCntDown
	} else {
		f.FCnt = n.nFCntDown
	}
	tx := pipe.TxParams{ConfFCnt: n.lastConfUp}
	noteFrame(f, &n.sess)
	wire, stage, err := pipe.SealOrder(&n.sess, f.ToLib(), tx, true)
	if err != nil && f.InPieces() {
		simrt.Count(cPiecesRefused)
		wire, stage, err = pipe.SealOrder(&n.sess, f.ToLibWhole(), tx, true)
	}
	if err != nil && !f.AllInSpec() {
		simrt.Count(cLegacyRefused)
		return
	}
	if err != nil {
		simrt.Report("o3.sender:"+stage, fmt.Sprintf("spec-valid downlink %v refused at %s: %v", f, stage, err))
		return
	}
	p := &packet{bytes: wire, orig: append([]byte(nil), wire...), uplink: false, dev: id, toDev: id, truth: f, sender: *n, fcnt32: f.FCnt, tx: tx, rxTx: tx, at: simrt.Now(), live: live}
	if f.MType == 5 {
		n.lastConfDown = f.FCnt
	}
	if useA {
		n.aFCntDown++
	} else {
		n.nFCntDown++
	}
	simrt.Count(cSent)
	simrt.Trace(evTx, uint64(100+id), uint64(f.FCnt))
	w.toAir.Send(0, p)
}

// reconstruct the 32-bit counter from the 16 wire bits and the last known
// value (the closest value above last).
func reconstruct(last uint32, wire16 uint16) uint32 {
	c := last&0xffff0000 | uint32(wire16)
	if c < last {
		c += 0x10000 // rolled over (uint32 wrap-around included)
	}
	return c
}

// ---------------------------------------------------------------- receive

// receive is one arrival at `rcv` (-1 = NS, else device index). It returns
// whether the library accepted the frame.
func receive(w *world, p *packet, rcv int, r *sim.Rand) bool {
	sim.Op()
	simrt.Count(cArrivals)
	expectUplink := rcv < 0
	var me *side
	if rcv < 0 {
		me = w.ns[p.dev]
		if p.modified && len(p.bytes) >= 5 {
			// route by the DevAddr actually received; unknown addresses fall
			// back to the original device's session (collision case)
			for i, s := range w.ns {
				if bytes.Equal(spec.Reverse(s.sess.DevAddr[:]), p.bytes[1:5]) {
					me = w.ns[i]
				}
			}
		}
	} else {
		me = w.dev[rcv]
	}
	sigKind := p.kind
	if sigKind == "" {
		sigKind = "none"
	}
	simrt.Trace(evRx, uint64(rcv+1), uint64(len(p.bytes)))
	if p.modified || p.kind != "" {
		simrt.Count(cNontrivial)
	}

	phy := &lorawan.PHYPayload{}
	var uerr error
	if sim.Guard("panic.receiver", func() { uerr = phy.UnmarshalBinary(append([]byte(nil), p.bytes...)) }) {
		return false
	}
	if len(p.bytes) < 12 && uerr == nil {
		// shorter than MHDR + minimal FHDR + MIC: nothing the MIC oracle could be applied to
		return false
	}
	if uerr != nil {
		simrt.Count(cUndecod)
		if !p.modified {
			simrt.Report("o3.receiver:UnmarshalBinary", fmt.Sprintf("unmodified frame %x refused by the decoder: %v", p.bytes, uerr))
		}
		return false
	}
	mp, isData := phy.MACPayload.(*lorawan.MACPayload)
	// receiver's parameters
	var fcnt32 uint32
	tx := p.rxTx
	if isData {
		wire16 := uint16(mp.FHDR.FCnt)
		if expectUplink {
			fcnt32 = reconstruct(me.fcntUp, wire16)
			tx.ConfFCnt = me.lastConfDown
		} else {
			last := me.nFCntDown
			if me.sess.V11 && mp.FPort != nil && *mp.FPort > 0 {
				last = me.aFCntDown
			}
			fcnt32 = reconstruct(last, wire16)
			tx.ConfFCnt = me.lastConfUp
		}
	}
	// a receiver that is not sure about the upper half of the counter tries
	// candidates on the SAME decoded frame: a first validation with another
	// upper half (judged like any validation: accepted only if the
	// specification's MIC for that counter is the MIC on the wire), then the
	// one with the reconstructed counter
	if isData && len(p.bytes) >= 12 && r.Intn(3) == 0 {
		cand := fcnt32 ^ uint32(1+r.Intn(3))<<16
		if r.Intn(4) == 0 {
			cand = fcnt32&0xffff | uint32(r.Intn(1<<16))<<16
		}
		if cand != fcnt32 {
			simrt.Count(cCandidate)
			var okC bool
			var errC error
			if sim.Guard("panic.receiver", func() {
				mp.FHDR.FCnt = cand
				if expectUplink {
					okC, errC = phy.ValidateUplinkDataMIC(me.sess.MACVersion(), tx.ConfFCnt, tx.TxDR, tx.TxCh, lorawan.AES128Key(me.sess.FNwkSInt), lorawan.AES128Key(me.sess.SNwkSInt))
				} else {
					okC, errC = phy.ValidateDownlinkDataMIC(me.sess.MACVersion(), tx.ConfFCnt, lorawan.AES128Key(me.sess.SNwkSInt))
				}
			}) {
				return false
			}
			if okC && errC == nil {
				msgC := p.bytes[:len(p.bytes)-4]
				specC := spec.DataMIC(msgC, expectUplink, me.sess.MICParams(cand, tx))
				if !bytes.Equal(specC[:], p.bytes[len(p.bytes)-4:]) {
					simrt.Report("tamper.accepted:fcnt-candidate", fmt.Sprintf("receiver accepted %x with frame counter candidate %#x although the specification's MIC for that counter is %x (a validation with the same frame value and another candidate follows)", p.bytes, cand, specC))
				}
			}
		}
	}
	// the library's verdict, through the call a receiver of that role makes
	var accepted bool
	var verr error
	panicked := sim.Guard("panic.receiver", func() {
		if isData {
			mp.FHDR.FCnt = fcnt32
		}
		if expectUplink {
			accepted, verr = phy.ValidateUplinkDataMIC(me.sess.MACVersion(), tx.ConfFCnt, tx.TxDR, tx.TxCh, lorawan.AES128Key(me.sess.FNwkSInt), lorawan.AES128Key(me.sess.SNwkSInt))
			if accepted && me.sess.V11 {
				okF, errF := phy.ValidateUplinkDataMICF(lorawan.AES128Key(me.sess.FNwkSInt))
				if !okF || errF != nil {
					simrt.Count(cMICFDisagrees) // the cmacF-only helper is not in the statement: counted
				}
			}
		} else {
			accepted, verr = phy.ValidateDownlinkDataMIC(me.sess.MACVersion(), tx.ConfFCnt, lorawan.AES128Key(me.sess.SNwkSInt))
		}
	})
	if panicked {
		return false
	}
	if verr != nil {
		accepted = false
	}
	// the specification's verdict over the RECEIVED bytes with the receiver's parameters
	msg := p.bytes[:len(p.bytes)-4]
	specMIC := spec.DataMIC(msg, expectUplink, me.sess.MICParams(fcnt32, tx))
	micEqual := len(msg) >= 8 && bytes.Equal(specMIC[:], p.bytes[len(p.bytes)-4:])
	mtype := p.bytes[0] >> 5
	dataType := mtype >= 2 && mtype <= 5
	if accepted {
		simrt.Count(cAccepted)
	} else {
		simrt.Count(cRejected)
	}
	// O1: accepted => the specification's MIC equals the MIC on the wire. The
	// direction octet of the specification's MIC block follows from the frame
	// (its MType says which way it travels): a frame that reached the wrong
	// kind of receiver and is validated with the direction it carries has the
	// MIC the specification gives it.
	if accepted && !micEqual && dataType {
		frameUp := mtype == 2 || mtype == 4
		if frameUp != expectUplink {
			alt := spec.DataMIC(msg, frameUp, me.sess.MICParams(fcnt32, tx))
			if len(msg) >= 8 && bytes.Equal(alt[:], p.bytes[len(p.bytes)-4:]) {
				simrt.Count(cOwnDirection)
				micEqual = true
			}
		}
	}
	if accepted && !micEqual {
		simrt.Report("tamper.accepted:"+sigKind, fmt.Sprintf("receiver accepted %x (sent %x, perturbation %s) although the specification's MIC over the received bytes with the receiver's keys/counters/parameters is %x", p.bytes, p.orig, sigKind, specMIC))
		return accepted
	}
	// sender and receiver agree on everything that enters the MIC?
	inSync := !p.modified && p.uplink == expectUplink && me.sess == p.sender.sess && fcnt32 == p.fcnt32 && (rcv < 0 || rcv == p.dev)
	if inSync && me.sess.V11 {
		if p.truth.ACK && uint16(tx.ConfFCnt) != uint16(p.tx.ConfFCnt) {
			inSync = false
		}
		if p.uplink && (tx.TxDR != p.tx.TxDR || tx.TxCh != p.tx.TxCh) {
			inSync = false
		}
	}
	if !accepted {
		if inSync {
			sig := "o2.rejected-valid"
			if p.live {
				sig = "o4.liveness"
			}
			simrt.Report(sig, fmt.Sprintf("unmodified frame %x with matching keys, counters and parameters was rejected (%v %v); spec MIC equal=%v; truth %v", p.bytes, accepted, verr, micEqual, p.truth))
		} else if micEqual && dataType && !p.modified {
			simrt.Report("o1.rejected-spec-valid", fmt.Sprintf("frame %x rejected although the specification's MIC matches", p.bytes))
		}
		return false
	}
	if !inSync {
		// accepted and the spec MIC matches although something differed: a
		// 2^-32 collision or a difference the MIC does not cover (an
		// encryption key): content is not compared
		if me.sess.FNwkSInt == p.sender.sess.FNwkSInt && me.sess.SNwkSInt == p.sender.sess.SNwkSInt && me.sess.V11 == p.sender.sess.V11 {
			simrt.Count(cForeignEnc)
		} else {
			simrt.Count(cCollision)
		}
		advance(me, expectUplink, mp, fcnt32, p)
		return true
	}
	// O2: never wrong data
	stage, derr := "", error(nil)
	frmFirst := false // the order of the statement: validate, decrypt FOpts, decrypt FRMPayload
	if sim.Guard("panic.receiver", func() { stage, derr = pipe.OpenOrder(&me.sess, phy, frmFirst) }) {
		return true
	}
	if derr != nil {
		simrt.Report("o2.open:"+stage, fmt.Sprintf("valid frame %v (%x) failed at %s: %v", p.truth, p.bytes, stage, derr))
		advance(me, expectUplink, mp, fcnt32, p)
		return true
	}
	got, okShape := spec.FromLibFrame(phy)
	simrt.Count(cContent)
	if !okShape {
		simrt.Report("o2.content", fmt.Sprintf("decrypted frame has an unexpected shape: %s; sent %v", sim.DeepSig(phy), p.truth))
	} else if same, why := got.SameContent(p.truth); !same {
		simrt.Report("o2.content", fmt.Sprintf("receiver obtained different content (%s): sent %v, got %v (wire %x)", why, p.truth, got, p.bytes))
	}
	advance(me, expectUplink, mp, fcnt32, p)
	return true
}

// advance updates the receiver's session after an accepted frame.
func advance(me *side, expectUplink bool, mp *lorawan.MACPayload, fcnt32 uint32, p *packet) {
	if expectUplink {
		if fcnt32 > me.fcntUp || me.fcntUp == 0xffffffff {
			me.fcntUp = fcnt32
		}
		if p.bytes[0]>>5 == 4 {
			me.lastConfUp = fcnt32
		}
		return
	}
	if me.sess.V11 && mp.FPort != nil && *mp.FPort > 0 {
		if fcnt32 > me.aFCntDown {
			me.aFCntDown = fcnt32
		}
	} else if fcnt32 > me.nFCntDown {
		me.nFCntDown = fcnt32
	}
	if p.bytes[0]>>5 == 5 {
		me.lastConfDown = fcnt32
	}
}
